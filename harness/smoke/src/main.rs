//! C20 smoke program: one round trip per enabled protocol at the highest enabled layer.
//! The body is cfg-gated per protocol and per layer; prints one line per round trip and
//! exits non-zero if any fails.
#![allow(unused)]

#[cfg(any(feature = "core", feature = "generic", feature = "batteries_included"))]
mod rt {
    #[cfg(all(not(feature = "generic"), feature = "core"))]
    use rusty_paseto::core::*;
    #[cfg(all(feature = "generic", not(feature = "batteries_included")))]
    use rusty_paseto::generic::*;
    #[cfg(feature = "batteries_included")]
    use rusty_paseto::prelude::*;

    const MSG: &str = "{\"data\":\"smoke\"}";

    // the four shapes of a token: with / without footer, with / without implicit assertion (v3 / v4 only)
    const SHAPES: [(Option<&str>, Option<&str>); 4] = [(None, None), (Some("kid-1"), None), (None, Some("tenant-1")), (Some("kid-1"), Some("tenant-1"))];

    // set_implicit_assertion exists for v3 / v4 only: the protocol macros pass [None] (capable) or []
    macro_rules! set_ia {
        ([], $b:ident, $a:expr) => {};
        ([$x:expr], $b:ident, $a:expr) => {
            if let Some(a) = $a {
                $b.set_implicit_assertion(ImplicitAssertion::from(a));
            }
        };
    }
    macro_rules! capable {
        ([]) => { false };
        ([$x:expr]) => { true };
    }
    macro_rules! core_open_local {
        ([], $V:ident, $t:expr, $key:expr, $f:expr, $a:expr) => { Paseto::<$V, Local>::try_decrypt($t, $key, $f) };
        ([$x:expr], $V:ident, $t:expr, $key:expr, $f:expr, $a:expr) => { Paseto::<$V, Local>::try_decrypt($t, $key, $f, $a) };
    }
    macro_rules! core_open_public {
        ([], $V:ident, $t:expr, $key:expr, $f:expr, $a:expr) => { Paseto::<$V, Public>::try_verify($t, $key, $f) };
        ([$x:expr], $V:ident, $t:expr, $key:expr, $f:expr, $a:expr) => { Paseto::<$V, Public>::try_verify($t, $key, $f, $a) };
    }

    macro_rules! local_rt {
        ($V:ident, $N:literal, $name:literal, $cap:tt) => {{
            let key = PasetoSymmetricKey::<$V, Local>::from(Key::<32>::from([7u8; 32]));
            let mut ok = true;
            for (f, a) in SHAPES {
                if a.is_some() && !capable!($cap) {
                    continue;
                }
                #[cfg(feature = "batteries_included")]
                let one = {
                    let mut b = PasetoBuilder::<$V, Local>::default();
                    b.set_claim(SubjectClaim::from("smoke"));
                    if let Some(f) = f { b.set_footer(Footer::from(f)); }
                    set_ia!($cap, b, a);
                    let t = b.build(&key).expect("build");
                    let mut p = PasetoParser::<$V, Local>::default();
                    if let Some(f) = f { p.set_footer(Footer::from(f)); }
                    set_ia!($cap, p, a);
                    let r = p.parse(&t, &key).map(|v| v["sub"] == "smoke").unwrap_or(false);
                    r
                };
                #[cfg(all(feature = "generic", not(feature = "batteries_included")))]
                let one = {
                    let mut b = GenericBuilder::<$V, Local>::default();
                    b.set_claim(SubjectClaim::from("smoke"));
                    if let Some(f) = f { b.set_footer(Footer::from(f)); }
                    set_ia!($cap, b, a);
                    let t = b.try_encrypt(&key).expect("build");
                    let mut p = GenericParser::<$V, Local>::default();
                    if let Some(f) = f { p.set_footer(Footer::from(f)); }
                    set_ia!($cap, p, a);
                    let r = p.parse(&t, &key).map(|v| v["sub"] == "smoke").unwrap_or(false);
                    r
                };
                #[cfg(not(feature = "generic"))]
                let one = {
                    let nk = Key::<$N>::from([9u8; $N]);
                    let nonce = PasetoNonce::<$V, Local>::from(&nk);
                    let mut b = Paseto::<$V, Local>::builder();
                    b.set_payload(Payload::from(MSG));
                    if let Some(f) = f { b.set_footer(Footer::from(f)); }
                    set_ia!($cap, b, a);
                    let t = b.try_encrypt(&key, &nonce).expect("encrypt");
                    core_open_local!($cap, $V, &t, &key, f.map(Footer::from), a.map(ImplicitAssertion::from)).map(|m| m == MSG).unwrap_or(false)
                };
                if !one {
                    println!("{} footer={:?} assertion={:?} FAILED", $name, f, a);
                }
                ok = ok && one;
            }
            println!("{} round-trip {}", $name, if ok { "ok" } else { "FAILED" });
            ok
        }};
    }

    macro_rules! public_rt {
        ($V:ident, $name:literal, $sk:expr, $pk:expr, $cap:tt) => {{
            let sk = $sk;
            let pk = $pk;
            let mut ok = true;
            for (f, a) in SHAPES {
                if a.is_some() && !capable!($cap) {
                    continue;
                }
                #[cfg(feature = "batteries_included")]
                let one = {
                    let mut b = PasetoBuilder::<$V, Public>::default();
                    b.set_claim(SubjectClaim::from("smoke"));
                    if let Some(f) = f { b.set_footer(Footer::from(f)); }
                    set_ia!($cap, b, a);
                    let t = b.build(&sk).expect("build");
                    let mut p = PasetoParser::<$V, Public>::default();
                    if let Some(f) = f { p.set_footer(Footer::from(f)); }
                    set_ia!($cap, p, a);
                    let r = p.parse(&t, &pk).map(|v| v["sub"] == "smoke").unwrap_or(false);
                    r
                };
                #[cfg(all(feature = "generic", not(feature = "batteries_included")))]
                let one = {
                    let mut b = GenericBuilder::<$V, Public>::default();
                    b.set_claim(SubjectClaim::from("smoke"));
                    if let Some(f) = f { b.set_footer(Footer::from(f)); }
                    set_ia!($cap, b, a);
                    let t = b.try_sign(&sk).expect("build");
                    let mut p = GenericParser::<$V, Public>::default();
                    if let Some(f) = f { p.set_footer(Footer::from(f)); }
                    set_ia!($cap, p, a);
                    let r = p.parse(&t, &pk).map(|v| v["sub"] == "smoke").unwrap_or(false);
                    r
                };
                #[cfg(not(feature = "generic"))]
                let one = {
                    let mut b = Paseto::<$V, Public>::builder();
                    b.set_payload(Payload::from(MSG));
                    if let Some(f) = f { b.set_footer(Footer::from(f)); }
                    set_ia!($cap, b, a);
                    let t = b.try_sign(&sk).expect("sign");
                    core_open_public!($cap, $V, &t, &pk, f.map(Footer::from), a.map(ImplicitAssertion::from)).map(|m| m == MSG).unwrap_or(false)
                };
                if !one {
                    println!("{} footer={:?} assertion={:?} FAILED", $name, f, a);
                }
                ok = ok && one;
            }
            println!("{} round-trip {}", $name, if ok { "ok" } else { "FAILED" });
            ok
        }};
    }

    pub fn run() -> (usize, usize) {
        let mut n = 0;
        let mut good = 0;
        let mut tally = |ok: bool| {
            n += 1;
            if ok {
                good += 1;
            }
        };
        #[cfg(feature = "v1_local")]
        tally(local_rt!(V1, 32, "v1.local", []));
        #[cfg(feature = "v2_local")]
        tally(local_rt!(V2, 24, "v2.local", []));
        #[cfg(feature = "v3_local")]
        tally(local_rt!(V3, 32, "v3.local", [None]));
        #[cfg(feature = "v4_local")]
        tally(local_rt!(V4, 32, "v4.local", [None]));
        #[cfg(feature = "v1_public")]
        {
            let skb: &[u8] = include_bytes!("../../../fixtures/rsa/rsa1.pk8");
            let pkb: &[u8] = include_bytes!("../../../fixtures/rsa/rsa1.pub.der");
            tally(public_rt!(V1, "v1.public", PasetoAsymmetricPrivateKey::<V1, Public>::from(skb), PasetoAsymmetricPublicKey::<V1, Public>::from(pkb), []));
        }
        #[cfg(any(feature = "v2_public", feature = "v4_public"))]
        let (ed_sk, ed_pk) = (
            Key::<64>::try_from("b4cbfb43df4ce210727d953e4a713307fa19bb7d9f85041438d9e11b942a37741eb9dbbbbc047c03fd70604e0071f0987e16b28b757225c11f00415d0e20b1a2").unwrap(),
            Key::<32>::try_from("1eb9dbbbbc047c03fd70604e0071f0987e16b28b757225c11f00415d0e20b1a2").unwrap(),
        );
        #[cfg(feature = "v2_public")]
        tally(public_rt!(V2, "v2.public", PasetoAsymmetricPrivateKey::<V2, Public>::from(&ed_sk), PasetoAsymmetricPublicKey::<V2, Public>::from(&ed_pk), []));
        #[cfg(feature = "v3_public")]
        {
            let sk = Key::<48>::try_from("20347609607477aca8fbfbc5e6218455f3199669792ef8b466faa87bdc67798144c848dd03661eed5ac62461340cea96").unwrap();
            let pk = Key::<49>::try_from("02fbcb7c69ee1c60579be7a334134878d9c5c5bf35d552dab63c0140397ed14cef637d7720925c44699ea30e72874c72fb").unwrap();
            let first = public_rt!(V3, "v3.public", PasetoAsymmetricPrivateKey::<V3, Public>::from(&sk), PasetoAsymmetricPublicKey::<V3, Public>::try_from(&pk).unwrap(), [None]);
            // a second key pair whose compressed public point has odd y (SEC1 tag 0x03; the vector key has 0x02)
            let sk = Key::<48>::try_from("11000000000000000000000000000000000000001c000000000000000000000000000000000000000000000000000004").unwrap();
            let pk = Key::<49>::try_from("037472dad16f7a27bb9f4c615a4ed4a8ccc6e448219784cace3d5834ef41e4c3f8c31497c17edd60814706137bb8311698").unwrap();
            let second = match PasetoAsymmetricPublicKey::<V3, Public>::try_from(&pk) {
                Ok(pk) => public_rt!(V3, "v3.public (odd y)", PasetoAsymmetricPrivateKey::<V3, Public>::from(&sk), pk, [None]),
                Err(e) => {
                    println!("v3.public (odd y): public key refused: {:?}", e);
                    false
                }
            };
            tally(first && second);
        }
        #[cfg(feature = "v4_public")]
        tally(public_rt!(V4, "v4.public", PasetoAsymmetricPrivateKey::<V4, Public>::from(&ed_sk), PasetoAsymmetricPublicKey::<V4, Public>::from(&ed_pk), [None]));
        (n, good)
    }
}

fn main() {
    #[cfg(any(feature = "core", feature = "generic", feature = "batteries_included"))]
    {
        let (n, good) = rt::run();
        println!("smoke: {} of {} enabled protocols round-trip", good, n);
        if n != good {
            std::process::exit(1);
        }
    }
    #[cfg(not(any(feature = "core", feature = "generic", feature = "batteries_included")))]
    println!("smoke: no layer enabled");
}
