//! Thin, uniform wrappers over the public API of rusty_paseto for the eight
//! protocols and the three layers (core, generic, prelude).  No protocol knowledge
//! lives here: the wrappers only route abstract calls to the typed API, catch
//! panics and classify results into the outcome classes of DESIGN.md §3.2.

use rusty_paseto::prelude::*;
use serde_json::Value;
use std::cell::RefCell;
use std::collections::HashMap;
use std::panic::{catch_unwind, AssertUnwindSafe};

thread_local! {
    static KEY_ROUTE: std::cell::Cell<usize> = std::cell::Cell::new(0);
}

/// The equivalent routes to a `Key<N>` - owned array, array reference, slice, hexadecimal text - taken in
/// turn, so that every entry point meets keys built each way.
pub fn mk_key<const N: usize>(bytes: [u8; N]) -> Key<N> {
    let r = KEY_ROUTE.with(|c| {
        let v = c.get();
        c.set(v + 1);
        v
    });
    match r % 4 {
        0 => Key::<N>::from(bytes),
        1 => Key::<N>::from(&bytes),
        2 => Key::<N>::from(&bytes[..]),
        // (a broken hexadecimal route is C09's business - the hex sweep - and must not stop the other checks)
        _ => Key::<N>::try_from(hex::encode(bytes).as_str()).unwrap_or_else(|_| Key::<N>::from(bytes)),
    }
}

#[derive(Clone, Copy, PartialEq, Eq, Hash, Debug, PartialOrd, Ord)]
pub struct Proto {
    pub v: u8,
    pub public: bool,
}

impl Proto {
    pub fn new(v: u8, purpose: &str) -> Proto {
        Proto { v, public: purpose == "public" }
    }
    pub fn purpose(&self) -> &'static str {
        if self.public {
            "public"
        } else {
            "local"
        }
    }
    pub fn header(&self) -> String {
        format!("v{}.{}.", self.v, self.purpose())
    }
    pub fn has_assertion(&self) -> bool {
        self.v >= 3
    }
    pub fn all() -> Vec<Proto> {
        let mut v = vec![];
        for ver in 1..=4u8 {
            for p in [false, true] {
                v.push(Proto { v: ver, public: p });
            }
        }
        v
    }
    pub fn name(&self) -> String {
        format!("v{}.{}", self.v, self.purpose())
    }
}

/// Key material for every protocol, derived from one abstract key.
#[derive(Clone)]
pub struct KeyMat {
    pub sym: [u8; 32],
    pub ed_sk: [u8; 64],
    pub ed_pk: [u8; 32],
    pub p384_sk: [u8; 48],
    pub p384_pk: [u8; 49],
    pub rsa_sk: Vec<u8>,
    pub rsa_pk: Vec<u8>,
}

/// Outcome classes (DESIGN.md §3.2)
#[derive(Clone, Debug, PartialEq)]
pub enum Out<T> {
    Ok(T),
    /// rejected by format / authentication before plaintext is handled
    ErrPre(String),
    /// rejected after authentication (utf8, json, claim:<Variant>[:detail])
    ErrPost(String),
    /// builder-side failure (dup:<key>, claim:.., json, cipher:..)
    ErrBuild(String),
    Panic(String),
}

impl<T> Out<T> {
    pub fn class(&self) -> &'static str {
        match self {
            Out::Ok(_) => "ok",
            Out::ErrPre(_) => "pre",
            Out::ErrPost(_) => "post",
            Out::ErrBuild(_) => "build",
            Out::Panic(_) => "panic",
        }
    }
    pub fn detail(&self) -> String {
        match self {
            Out::Ok(_) => String::new(),
            Out::ErrPre(s) | Out::ErrPost(s) | Out::ErrBuild(s) | Out::Panic(s) => s.clone(),
        }
    }
    pub fn is_ok(&self) -> bool {
        matches!(self, Out::Ok(_))
    }
    pub fn ok(self) -> Option<T> {
        match self {
            Out::Ok(t) => Some(t),
            _ => None,
        }
    }
}

thread_local! {
    static LAST_PANIC: RefCell<String> = RefCell::new(String::new());
}

/// Installs a silent panic hook which records the panic location.
pub fn install_panic_hook() {
    std::panic::set_hook(Box::new(|info| {
        let loc = info
            .location()
            .map(|l| format!("{}:{}", l.file(), l.line()))
            .unwrap_or_else(|| "?".into());
        let msg = if let Some(s) = info.payload().downcast_ref::<&str>() {
            s.to_string()
        } else if let Some(s) = info.payload().downcast_ref::<String>() {
            s.clone()
        } else {
            String::new()
        };
        if std::env::var("PV_DEBUG").is_ok() || loc.contains("harness") || loc.starts_with("src/") {
            // a panic in the harness itself is a tool error: make it visible
            eprintln!("pv: panic at {}: {}", loc, msg);
        }
        LAST_PANIC.with(|p| *p.borrow_mut() = format!("{} {}", loc, msg));
    }));
}

fn guard<T>(f: impl FnOnce() -> Out<T>) -> Out<T> {
    match catch_unwind(AssertUnwindSafe(f)) {
        Ok(o) => o,
        Err(_) => Out::Panic(LAST_PANIC.with(|p| p.borrow().clone())),
    }
}

fn variant_name(dbg: &str) -> String {
    dbg.chars().take_while(|c| c.is_alphanumeric() || *c == '_').collect()
}

pub fn classify_core<T>(e: PasetoError) -> Out<T> {
    let name = variant_name(&format!("{:?}", e));
    match e {
        PasetoError::Utf8Error { .. } | PasetoError::FromUtf8Error { .. } => Out::ErrPost(format!("utf8:{}", name)),
        _ => Out::ErrPre(name),
    }
}

fn claim_err_name(e: &PasetoClaimError) -> String {
    match e {
        PasetoClaimError::Missing(k) => format!("claim:Missing:{}", k),
        PasetoClaimError::Reserved(k) => format!("claim:Reserved:{}", k),
        PasetoClaimError::CustomValidation(k) => format!("claim:CustomValidation:{}", k),
        PasetoClaimError::Invalid(k, _, _) => format!("claim:Invalid:{}", k),
        PasetoClaimError::Unexpected(k) => format!("claim:Unexpected:{}", k),
        PasetoClaimError::DuplicateTopLevelPayloadClaim(k) => format!("claim:Duplicate:{}", k),
        PasetoClaimError::Expired => "claim:Expired:exp".to_string(),
        PasetoClaimError::UseBeforeAvailable(_) => "claim:UseBeforeAvailable:nbf".to_string(),
        PasetoClaimError::RFC3339Date(v) => format!("claim:RFC3339Date:{}", v),
    }
}

pub fn classify_parse<T>(e: GenericParserError) -> Out<T> {
    match e {
        GenericParserError::ClaimError { source } => Out::ErrPost(claim_err_name(&source)),
        GenericParserError::CipherError { source } => classify_core(source),
        GenericParserError::PayloadJsonError { .. } => Out::ErrPost("json".into()),
    }
}

pub fn classify_build<T>(e: GenericBuilderError) -> Out<T> {
    match e {
        GenericBuilderError::DuplicateTopLevelPayloadClaim(k) => Out::ErrBuild(format!("dup:{}", k)),
        GenericBuilderError::ClaimError { source } => Out::ErrBuild(claim_err_name(&source)),
        GenericBuilderError::CipherError { source } => {
            Out::ErrBuild(format!("cipher:{}", variant_name(&format!("{:?}", source))))
        }
        GenericBuilderError::PayloadJsonError { .. } => Out::ErrBuild("json".into()),
        GenericBuilderError::BadEmailAddress(_) => Out::ErrBuild("email".into()),
    }
}

// ---------------------------------------------------------------------------------
// core layer
// ---------------------------------------------------------------------------------

macro_rules! local_mint {
    ($V:ident, $km:expr, $nonce:expr, $msg:expr, $footer:expr, $assertion:expr, $N:literal, assert=$has:tt) => {{
        let key = PasetoSymmetricKey::<$V, Local>::from(mk_key::<32>($km.sym));
        let nk = Key::<$N>::from(&$nonce[..$N]);
        let nonce = PasetoNonce::<$V, Local>::from(&nk);
        let mut b = Paseto::<$V, Local>::builder();
        b.set_payload(Payload::from($msg));
        if let Some(f) = $footer {
            b.set_footer(Footer::from(f));
        }
        local_mint!(@assert $has, b, $assertion);
        match b.try_encrypt(&key, &nonce) {
            Ok(t) => Out::Ok(t),
            Err(e) => Out::ErrBuild(format!("cipher:{}", variant_name(&format!("{:?}", e)))),
        }
    }};
    (@assert yes, $b:ident, $assertion:expr) => {
        if let Some(a) = $assertion {
            $b.set_implicit_assertion(ImplicitAssertion::from(a));
        }
    };
    (@assert no, $b:ident, $assertion:expr) => {
        let _ = $assertion;
    };
}

macro_rules! public_sign {
    ($V:ident, $key:expr, $msg:expr, $footer:expr, $assertion:expr, assert=$has:tt) => {{
        let mut b = Paseto::<$V, Public>::builder();
        b.set_payload(Payload::from($msg));
        if let Some(f) = $footer {
            b.set_footer(Footer::from(f));
        }
        local_mint!(@assert $has, b, $assertion);
        match b.try_sign(&$key) {
            Ok(t) => Out::Ok(t),
            Err(e) => Out::ErrBuild(format!("cipher:{}", variant_name(&format!("{:?}", e)))),
        }
    }};
}

/// `try_encrypt` / `try_sign` of the core layer. `nonce` must hold at least 32 bytes
/// (v2 uses the first 24, or all 32 when `v2_nonce32` is set).
pub fn core_mint(
    pr: Proto,
    km: &KeyMat,
    nonce: &[u8; 32],
    msg: &str,
    footer: Option<&str>,
    assertion: Option<&str>,
) -> Out<String> {
    guard(|| match (pr.v, pr.public) {
        (1, false) => local_mint!(V1, km, nonce, msg, footer, assertion, 32, assert = no),
        (2, false) => local_mint!(V2, km, nonce, msg, footer, assertion, 24, assert = no),
        (3, false) => local_mint!(V3, km, nonce, msg, footer, assertion, 32, assert = yes),
        (4, false) => local_mint!(V4, km, nonce, msg, footer, assertion, 32, assert = yes),
        (1, true) => {
            let key = PasetoAsymmetricPrivateKey::<V1, Public>::from(km.rsa_sk.as_slice());
            public_sign!(V1, key, msg, footer, assertion, assert = no)
        }
        (2, true) => {
            let k = mk_key::<64>(km.ed_sk);
            // two routes to the private key: from a Key<64> and from a byte slice
            let key = if KEY_ROUTE.with(|c| c.get()) % 3 == 0 {
                PasetoAsymmetricPrivateKey::<V2, Public>::from(&km.ed_sk[..])
            } else {
                PasetoAsymmetricPrivateKey::<V2, Public>::from(&k)
            };
            public_sign!(V2, key, msg, footer, assertion, assert = no)
        }
        (3, true) => {
            let k = mk_key::<48>(km.p384_sk);
            let key = PasetoAsymmetricPrivateKey::<V3, Public>::from(&k);
            public_sign!(V3, key, msg, footer, assertion, assert = yes)
        }
        (4, true) => {
            let k = mk_key::<64>(km.ed_sk);
            // two routes to the private key: from a Key<64> and from a byte slice
            let key = if KEY_ROUTE.with(|c| c.get()) % 3 == 0 {
                PasetoAsymmetricPrivateKey::<V4, Public>::from(&km.ed_sk[..])
            } else {
                PasetoAsymmetricPrivateKey::<V4, Public>::from(&k)
            };
            public_sign!(V4, key, msg, footer, assertion, assert = yes)
        }
        _ => unreachable!(),
    })
}

/// v2.local with a 32-byte nonce seed (the API accepts `Key<32>` as well)
pub fn core_mint_v2_nonce32(km: &KeyMat, nonce: &[u8; 32], msg: &str, footer: Option<&str>) -> Out<String> {
    guard(|| local_mint!(V2, km, nonce, msg, footer, None::<&str>, 32, assert = no))
}

fn res_core(r: Result<String, PasetoError>) -> Out<String> {
    match r {
        Ok(s) => Out::Ok(s),
        Err(e) => classify_core(e),
    }
}

/// `try_decrypt` / `try_verify` of the core layer
pub fn core_present(
    pr: Proto,
    token: &str,
    km: &KeyMat,
    footer: Option<&str>,
    assertion: Option<&str>,
) -> Out<String> {
    let f: Option<Footer> = footer.map(Footer::from);
    let a: Option<ImplicitAssertion> = assertion.map(ImplicitAssertion::from);
    guard(|| match (pr.v, pr.public) {
        (1, false) => {
            let key = PasetoSymmetricKey::<V1, Local>::from(mk_key::<32>(km.sym));
            res_core(Paseto::<V1, Local>::try_decrypt(token, &key, f))
        }
        (2, false) => {
            let key = PasetoSymmetricKey::<V2, Local>::from(mk_key::<32>(km.sym));
            res_core(Paseto::<V2, Local>::try_decrypt(token, &key, f))
        }
        (3, false) => {
            let key = PasetoSymmetricKey::<V3, Local>::from(mk_key::<32>(km.sym));
            res_core(Paseto::<V3, Local>::try_decrypt(token, &key, f, a))
        }
        (4, false) => {
            let key = PasetoSymmetricKey::<V4, Local>::from(mk_key::<32>(km.sym));
            res_core(Paseto::<V4, Local>::try_decrypt(token, &key, f, a))
        }
        (1, true) => {
            let key = PasetoAsymmetricPublicKey::<V1, Public>::from(km.rsa_pk.as_slice());
            res_core(Paseto::<V1, Public>::try_verify(token, &key, f))
        }
        (2, true) => {
            let k = mk_key::<32>(km.ed_pk);
            let key = PasetoAsymmetricPublicKey::<V2, Public>::from(&k);
            res_core(Paseto::<V2, Public>::try_verify(token, &key, f))
        }
        (3, true) => {
            let k = mk_key::<49>(km.p384_pk);
            match PasetoAsymmetricPublicKey::<V3, Public>::try_from(&k) {
                Ok(key) => res_core(Paseto::<V3, Public>::try_verify(token, &key, f, a)),
                Err(e) => classify_core(e),
            }
        }
        (4, true) => {
            let k = mk_key::<32>(km.ed_pk);
            let key = PasetoAsymmetricPublicKey::<V4, Public>::from(&k);
            res_core(Paseto::<V4, Public>::try_verify(token, &key, f, a))
        }
        _ => unreachable!(),
    })
}

// ---------------------------------------------------------------------------------
// claims and validators
// ---------------------------------------------------------------------------------

/// A user-defined claim with an arbitrary key and JSON value. `PasetoClaim` is a
/// public trait; every claim serialises as the one-entry map `{key: value}`.
#[derive(Clone, Debug)]
pub struct AnyClaim {
    pub key: String,
    pub value: Value,
}

impl PasetoClaim for AnyClaim {
    fn get_key(&self) -> &str {
        &self.key
    }
}

impl serde::Serialize for AnyClaim {
    fn serialize<S: serde::Serializer>(&self, s: S) -> Result<S::Ok, S::Error> {
        use serde::ser::SerializeMap;
        let mut m = s.serialize_map(Some(1))?;
        m.serialize_entry(&self.key, &self.value)?;
        m.end()
    }
}

/// A user-defined claim whose value lives in a shared cell (the caller may change it after set_claim)
pub struct CellClaim {
    pub key: String,
    pub value: std::rc::Rc<std::cell::RefCell<Value>>,
}

impl PasetoClaim for CellClaim {
    fn get_key(&self) -> &str {
        &self.key
    }
}

impl serde::Serialize for CellClaim {
    fn serialize<S: serde::Serializer>(&self, s: S) -> Result<S::Ok, S::Error> {
        use serde::ser::SerializeMap;
        let mut m = s.serialize_map(Some(1))?;
        m.serialize_entry(&self.key, &*self.value.borrow())?;
        m.end()
    }
}

/// How a claim is handed to the library
#[derive(Clone, Debug, PartialEq)]
pub enum Via {
    /// typed constructor for registered keys, CustomClaim for other keys (falls back to
    /// AnyClaim when the typed constructor cannot carry the value)
    Typed,
    /// always the harness' own `AnyClaim`
    Any,
}

#[derive(Clone, Copy, Debug, PartialEq, Eq)]
pub enum VKind {
    Accept,
    Reject,
    /// accepts iff the payload value equals the value configured with `set_accept_value`
    AcceptIfMagic,
}

#[derive(Clone, Debug, PartialEq)]
pub struct Call {
    pub vkind: VKind,
    pub key: String,
    pub value: Value,
}

thread_local! {
    /// wall-clock reading taken right after the last PasetoBuilder::default() of this thread
    pub static CREATED: RefCell<Option<time::OffsetDateTime>> = RefCell::new(None);
    /// completion time of every parse call of the current thread (for histories in which time passes)
    pub static PARSE_TIMES: RefCell<Vec<std::time::Instant>> = RefCell::new(Vec::new());
    static CALLS: RefCell<Vec<Call>> = RefCell::new(Vec::new());
    static MAGIC: RefCell<Value> = RefCell::new(Value::Null);
}

pub fn set_accept_value(v: Value) {
    MAGIC.with(|m| *m.borrow_mut() = v);
}

pub fn take_calls() -> Vec<Call> {
    CALLS.with(|c| std::mem::take(&mut *c.borrow_mut()))
}

fn v_accept(k: &str, v: &Value) -> Result<(), PasetoClaimError> {
    CALLS.with(|c| c.borrow_mut().push(Call { vkind: VKind::Accept, key: k.to_string(), value: v.clone() }));
    Ok(())
}
fn v_reject(k: &str, v: &Value) -> Result<(), PasetoClaimError> {
    CALLS.with(|c| c.borrow_mut().push(Call { vkind: VKind::Reject, key: k.to_string(), value: v.clone() }));
    Err(PasetoClaimError::CustomValidation(k.to_string()))
}
fn v_magic(k: &str, v: &Value) -> Result<(), PasetoClaimError> {
    CALLS.with(|c| c.borrow_mut().push(Call { vkind: VKind::AcceptIfMagic, key: k.to_string(), value: v.clone() }));
    if MAGIC.with(|m| *m.borrow() == *v) {
        Ok(())
    } else {
        Err(PasetoClaimError::CustomValidation(k.to_string()))
    }
}

fn validator_ref(k: VKind) -> &'static ValidatorFn {
    match k {
        VKind::Accept => &v_accept,
        VKind::Reject => &v_reject,
        VKind::AcceptIfMagic => &v_magic,
    }
}

fn validator_box(k: VKind) -> Box<ValidatorFn> {
    match k {
        VKind::Accept => Box::new(v_accept),
        VKind::Reject => Box::new(v_reject),
        VKind::AcceptIfMagic => Box::new(v_magic),
    }
}

// ---------------------------------------------------------------------------------
// builders (generic + prelude)
// ---------------------------------------------------------------------------------

#[derive(Clone, Debug)]
pub enum BOp {
    SetClaim { key: String, value: Value, via: Via },
    /// generic layer only
    RemoveClaim(String),
    /// generic layer only: `extend_claims` with one boxed JSON value per key
    ExtendClaims(Vec<(String, Value)>),
    /// prelude only
    Ack,
    SetFooter(String),
    /// v3/v4 only (ignored by the wrapper for v1/v2 where the method does not exist)
    SetAssertion(String),
    Build,
    /// let time pass between two calls on the builder
    Sleep(u64),
}

#[derive(Clone, Copy, Debug, PartialEq, Eq)]
pub enum Layer {
    Core,
    Generic,
    Prelude,
}

impl Layer {
    pub fn parse(s: &str) -> Layer {
        match s {
            "core" => Layer::Core,
            "generic" => Layer::Generic,
            _ => Layer::Prelude,
        }
    }
    pub fn name(&self) -> &'static str {
        match self {
            Layer::Core => "core",
            Layer::Generic => "generic",
            Layer::Prelude => "prelude",
        }
    }
}

/// Result of a typed claim constructor attempt for `SetClaim`
macro_rules! apply_set_claim {
    ($b:ident, $key:expr, $value:expr, $via:expr) => {{
        let key: &str = $key;
        let value: &Value = $value;
        let typed = *$via == Via::Typed;
        match (key, value) {
            ("iss", Value::String(s)) if typed => {
                $b.set_claim(IssuerClaim::from(s.as_str()));
            }
            ("sub", Value::String(s)) if typed => {
                $b.set_claim(SubjectClaim::from(s.as_str()));
            }
            ("aud", Value::String(s)) if typed => {
                $b.set_claim(AudienceClaim::from(s.as_str()));
            }
            ("jti", Value::String(s)) if typed => {
                $b.set_claim(TokenIdentifierClaim::from(s.as_str()));
            }
            ("exp", Value::String(s)) if typed && ExpirationClaim::try_from(s.as_str()).is_ok() => {
                $b.set_claim(ExpirationClaim::try_from(s.as_str()).unwrap());
            }
            ("nbf", Value::String(s)) if typed && NotBeforeClaim::try_from(s.as_str()).is_ok() => {
                $b.set_claim(NotBeforeClaim::try_from(s.as_str()).unwrap());
            }
            ("iat", Value::String(s)) if typed && IssuedAtClaim::try_from(s.as_str()).is_ok() => {
                $b.set_claim(IssuedAtClaim::try_from(s.as_str()).unwrap());
            }
            (k, v) if typed && CustomClaim::try_from((k, v.clone())).is_ok() => {
                $b.set_claim(CustomClaim::try_from((k, v.clone())).unwrap());
            }
            (k, v) => {
                if KEY_ROUTE.with(|c| c.get()) % 2 == 0 {
                    // a claim whose value the caller changes right after set_claim returned: the token
                    // carries what was set, not what the claim object says later (C14)
                    let cell = std::rc::Rc::new(std::cell::RefCell::new(v.clone()));
                    $b.set_claim(CellClaim { key: k.to_string(), value: cell.clone() });
                    *cell.borrow_mut() = Value::String("changed after set_claim".into());
                } else {
                    $b.set_claim(AnyClaim { key: k.to_string(), value: v.clone() });
                }
            }
        }
    }};
}

macro_rules! run_generic_builder {
    ($V:ident, $P:ident, $ops:expr, $key:expr, $finish:ident, assert=$has:tt) => {{
        let mut outs: Vec<Out<String>> = Vec::new();
        let mut b = if KEY_ROUTE.with(|c| c.get()) % 2 == 0 { GenericBuilder::<$V, $P>::default() } else { GenericBuilder::<$V, $P>::new() };
        for op in $ops.iter() {
            match op {
                BOp::SetClaim { key, value, via } => apply_set_claim!(b, key.as_str(), value, via),
                BOp::RemoveClaim(k) => {
                    b.remove_claim(k.as_str());
                }
                BOp::ExtendClaims(kvs) => {
                    let mut m: HashMap<String, Box<dyn erased_serde::Serialize>> = HashMap::new();
                    for (k, v) in kvs {
                        m.insert(k.clone(), Box::new(v.clone()));
                    }
                    b.extend_claims(m);
                }
                BOp::Ack => {}
                BOp::Sleep(ms) => std::thread::sleep(std::time::Duration::from_millis(*ms)),
                BOp::SetFooter(f) => {
                    b.set_footer(Footer::from(f.as_str()));
                }
                BOp::SetAssertion(_a) => {
                    run_generic_builder!(@assert $has, b, _a);
                }
                BOp::Build => {
                    let r = guard(|| match b.$finish(&$key) {
                        Ok(t) => Out::Ok(t),
                        Err(e) => classify_build(e),
                    });
                    outs.push(r);
                }
            }
        }
        outs
    }};
    (@assert yes, $b:ident, $a:ident) => {
        $b.set_implicit_assertion(ImplicitAssertion::from($a.as_str()));
    };
    (@assert no, $b:ident, $a:ident) => {};
}

macro_rules! run_prelude_builder {
    ($V:ident, $P:ident, $ops:expr, $key:expr, assert=$has:tt) => {{
        let mut outs: Vec<Out<String>> = Vec::new();
        let mut b = PasetoBuilder::<$V, $P>::default();
        CREATED.with(|c| *c.borrow_mut() = Some(time::OffsetDateTime::now_utc()));
        for op in $ops.iter() {
            match op {
                BOp::SetClaim { key, value, via } => apply_set_claim!(b, key.as_str(), value, via),
                BOp::RemoveClaim(_) | BOp::ExtendClaims(_) => {}
                BOp::Sleep(ms) => std::thread::sleep(std::time::Duration::from_millis(*ms)),
                BOp::Ack => {
                    b.set_no_expiration_danger_acknowledged();
                }
                BOp::SetFooter(f) => {
                    b.set_footer(Footer::from(f.as_str()));
                }
                BOp::SetAssertion(_a) => {
                    run_generic_builder!(@assert $has, b, _a);
                }
                BOp::Build => {
                    let r = guard(|| match b.build(&$key) {
                        Ok(t) => Out::Ok(t),
                        Err(e) => classify_build(e),
                    });
                    outs.push(r);
                }
            }
        }
        outs
    }};
}

/// Runs a builder call history on one builder object; one outcome per `Build`.
pub fn run_builder(pr: Proto, layer: Layer, ops: &[BOp], km: &KeyMat) -> Vec<Out<String>> {
    // `ops` outlives the builder, so footers/assertions/claims can be borrowed from it
    let r = catch_unwind(AssertUnwindSafe(|| match layer {
        Layer::Generic | Layer::Core => match (pr.v, pr.public) {
            (1, false) => {
                let key = PasetoSymmetricKey::<V1, Local>::from(mk_key::<32>(km.sym));
                run_generic_builder!(V1, Local, ops, key, try_encrypt, assert = no)
            }
            (2, false) => {
                let key = PasetoSymmetricKey::<V2, Local>::from(mk_key::<32>(km.sym));
                run_generic_builder!(V2, Local, ops, key, try_encrypt, assert = no)
            }
            (3, false) => {
                let key = PasetoSymmetricKey::<V3, Local>::from(mk_key::<32>(km.sym));
                run_generic_builder!(V3, Local, ops, key, try_encrypt, assert = yes)
            }
            (4, false) => {
                let key = PasetoSymmetricKey::<V4, Local>::from(mk_key::<32>(km.sym));
                run_generic_builder!(V4, Local, ops, key, try_encrypt, assert = yes)
            }
            (1, true) => {
                let key = PasetoAsymmetricPrivateKey::<V1, Public>::from(km.rsa_sk.as_slice());
                run_generic_builder!(V1, Public, ops, key, try_sign, assert = no)
            }
            (2, true) => {
                let k = mk_key::<64>(km.ed_sk);
                let key = PasetoAsymmetricPrivateKey::<V2, Public>::from(&k);
                run_generic_builder!(V2, Public, ops, key, try_sign, assert = no)
            }
            (3, true) => {
                let k = mk_key::<48>(km.p384_sk);
                let key = PasetoAsymmetricPrivateKey::<V3, Public>::from(&k);
                run_generic_builder!(V3, Public, ops, key, try_sign, assert = yes)
            }
            (4, true) => {
                let k = mk_key::<64>(km.ed_sk);
                let key = PasetoAsymmetricPrivateKey::<V4, Public>::from(&k);
                run_generic_builder!(V4, Public, ops, key, try_sign, assert = yes)
            }
            _ => unreachable!(),
        },
        Layer::Prelude => match (pr.v, pr.public) {
            (1, false) => {
                let key = PasetoSymmetricKey::<V1, Local>::from(mk_key::<32>(km.sym));
                run_prelude_builder!(V1, Local, ops, key, assert = no)
            }
            (2, false) => {
                let key = PasetoSymmetricKey::<V2, Local>::from(mk_key::<32>(km.sym));
                run_prelude_builder!(V2, Local, ops, key, assert = no)
            }
            (3, false) => {
                let key = PasetoSymmetricKey::<V3, Local>::from(mk_key::<32>(km.sym));
                run_prelude_builder!(V3, Local, ops, key, assert = yes)
            }
            (4, false) => {
                let key = PasetoSymmetricKey::<V4, Local>::from(mk_key::<32>(km.sym));
                run_prelude_builder!(V4, Local, ops, key, assert = yes)
            }
            (1, true) => {
                let key = PasetoAsymmetricPrivateKey::<V1, Public>::from(km.rsa_sk.as_slice());
                run_prelude_builder!(V1, Public, ops, key, assert = no)
            }
            (2, true) => {
                let k = mk_key::<64>(km.ed_sk);
                let key = PasetoAsymmetricPrivateKey::<V2, Public>::from(&k);
                run_prelude_builder!(V2, Public, ops, key, assert = no)
            }
            (3, true) => {
                let k = mk_key::<48>(km.p384_sk);
                let key = PasetoAsymmetricPrivateKey::<V3, Public>::from(&k);
                run_prelude_builder!(V3, Public, ops, key, assert = yes)
            }
            (4, true) => {
                let k = mk_key::<64>(km.ed_sk);
                let key = PasetoAsymmetricPrivateKey::<V4, Public>::from(&k);
                run_prelude_builder!(V4, Public, ops, key, assert = yes)
            }
            _ => unreachable!(),
        },
    }));
    match r {
        Ok(v) => v,
        // a panic outside `build` (in a setter): report it as the outcome of every build
        Err(_) => {
            let n = ops.iter().filter(|o| matches!(o, BOp::Build)).count().max(1);
            vec![Out::Panic(LAST_PANIC.with(|p| p.borrow().clone())); n]
        }
    }
}

// ---------------------------------------------------------------------------------
// parsers (generic + prelude)
// ---------------------------------------------------------------------------------

#[derive(Clone, Debug)]
pub enum POp {
    CheckClaim { key: String, value: Value, via: Via },
    ValidateClaim { key: String, kind: VKind },
    /// validate_claim with the library's own placeholder claim for the key
    ValidateClaimTyped { key: String, kind: VKind },
    /// validate_claim with a given value in the expected-claim entry (which must be ignored)
    ValidateClaimWith { key: String, kind: VKind, value: Value },
    /// generic layer only
    ExtendValidators(Vec<(String, VKind)>),
    /// generic layer only
    ExtendChecks(Vec<(String, Value)>),
    SetFooter(String),
    SetAssertion(String),
    /// parse token `tok` under key `key` (indices into the arrays given to `run_parser`)
    Parse { tok: usize, key: usize },
    /// let time pass: sleep until the given instant
    SleepUntil(std::time::Instant),
}

macro_rules! apply_check_claim {
    ($p:ident, $m:ident, $key:expr, $value:expr, $via:expr) => {{
        // every claim handed to the parser must be 'static for PasetoParser::check_claim
        let key: &str = $key;
        let value: &Value = $value;
        let typed = *$via == Via::Typed;
        match (key, value) {
            ("exp", Value::String(s)) if typed && ExpirationClaim::try_from(s.as_str()).is_ok() => {
                $p.$m(ExpirationClaim::try_from(s.as_str()).unwrap());
            }
            ("nbf", Value::String(s)) if typed && NotBeforeClaim::try_from(s.as_str()).is_ok() => {
                $p.$m(NotBeforeClaim::try_from(s.as_str()).unwrap());
            }
            ("iat", Value::String(s)) if typed && IssuedAtClaim::try_from(s.as_str()).is_ok() => {
                $p.$m(IssuedAtClaim::try_from(s.as_str()).unwrap());
            }
            (k, v) if typed && CustomClaim::try_from((k, v.clone())).is_ok() => {
                $p.$m(CustomClaim::try_from((k, v.clone())).unwrap());
            }
            (k, v) => {
                $p.$m(AnyClaim { key: k.to_string(), value: v.clone() });
            }
        }
    }};
}

macro_rules! run_parser_impl {
    ($Parser:ident, $V:ident, $P:ident, $ops:expr, $toks:expr, $keys:expr, generic=$gen:tt, assert=$has:tt) => {{
        let mut outs: Vec<(Out<Value>, Vec<Call>)> = Vec::new();
        let mut p = $Parser::<$V, $P>::default();
        for op in $ops.iter() {
            match op {
                POp::CheckClaim { key, value, via } => apply_check_claim!(p, check_claim, key.as_str(), value, via),
                POp::ValidateClaim { key, kind } => {
                    p.validate_claim(AnyClaim { key: key.clone(), value: Value::Null }, validator_ref(*kind));
                }
                // the documented idiom: the library's own claim type as placeholder (X::default() for a
                // registered claim, CustomClaim::try_from(key) for a custom one)
                POp::ValidateClaimTyped { key, kind } => match key.as_str() {
                    "iss" => { p.validate_claim(IssuerClaim::default(), validator_ref(*kind)); }
                    "sub" => { p.validate_claim(SubjectClaim::default(), validator_ref(*kind)); }
                    "aud" => { p.validate_claim(AudienceClaim::default(), validator_ref(*kind)); }
                    "jti" => { p.validate_claim(TokenIdentifierClaim::default(), validator_ref(*kind)); }
                    "iat" => { p.validate_claim(IssuedAtClaim::default(), validator_ref(*kind)); }
                    k => {
                        let ks: &'static str = Box::leak(k.to_string().into_boxed_str());
                        match CustomClaim::<&str>::try_from(ks) {
                            Ok(c) => { p.validate_claim(c, validator_ref(*kind)); }
                            Err(_) => { p.validate_claim(AnyClaim { key: key.clone(), value: Value::Null }, validator_ref(*kind)); }
                        }
                    }
                },
                POp::ValidateClaimWith { key, kind, value } => {
                    p.validate_claim(AnyClaim { key: key.clone(), value: value.clone() }, validator_ref(*kind));
                }
                POp::ExtendValidators(_kvs) => {
                    run_parser_impl!(@extv $gen, p, _kvs);
                }
                POp::ExtendChecks(_kvs) => {
                    run_parser_impl!(@extc $gen, p, _kvs);
                }
                POp::SetFooter(f) => {
                    p.set_footer(Footer::from(f.as_str()));
                }
                POp::SetAssertion(_a) => {
                    run_generic_builder!(@assert $has, p, _a);
                }
                POp::Parse { tok, key } => {
                    let _ = take_calls();
                    let t: &str = $toks[*tok].as_str();
                    let k = &$keys[*key];
                    let r = guard(|| match p.parse(t, k) {
                        Ok(v) => Out::Ok(v),
                        Err(e) => classify_parse(e),
                    });
                    outs.push((r, take_calls()));
                    PARSE_TIMES.with(|t| t.borrow_mut().push(std::time::Instant::now()));
                }
                POp::SleepUntil(t) => {
                    let now = std::time::Instant::now();
                    if *t > now {
                        std::thread::sleep(*t - now);
                    }
                }
            }
        }
        outs
    }};
    (@extv yes, $p:ident, $kvs:ident) => {{
        let mut m: ValidatorMap = HashMap::new();
        for (k, kind) in $kvs {
            m.insert(k.clone(), validator_box(*kind));
        }
        $p.extend_validation_claims(m);
    }};
    (@extv no, $p:ident, $kvs:ident) => {};
    (@extc yes, $p:ident, $kvs:ident) => {{
        let mut m: HashMap<String, Box<dyn erased_serde::Serialize>> = HashMap::new();
        for (k, v) in $kvs {
            m.insert(k.clone(), Box::new(AnyClaim { key: k.clone(), value: v.clone() }));
        }
        $p.extend_check_claims(m);
    }};
    (@extc no, $p:ident, $kvs:ident) => {};
}

macro_rules! run_parser_layer {
    ($layer:expr, $V:ident, $P:ident, $ops:expr, $toks:expr, $keys:expr, assert=$has:tt) => {
        match $layer {
            Layer::Prelude => run_parser_impl!(PasetoParser, $V, $P, $ops, $toks, $keys, generic = no, assert = $has),
            _ => run_parser_impl!(GenericParser, $V, $P, $ops, $toks, $keys, generic = yes, assert = $has),
        }
    };
}

/// Runs a parser call history on one parser object. Returns one `(outcome, validator
/// calls)` pair per `Parse` op. `toks` and `kms` are created before the parser
/// because the parser borrows them for its own lifetime.
pub fn run_parser(
    pr: Proto,
    layer: Layer,
    ops: &[POp],
    toks: &[String],
    kms: &[KeyMat],
) -> Vec<(Out<Value>, Vec<Call>)> {
    let n_parse = ops.iter().filter(|o| matches!(o, POp::Parse { .. })).count().max(1);
    let r = catch_unwind(AssertUnwindSafe(|| match (pr.v, pr.public) {
        (1, false) => {
            let keys: Vec<_> =
                kms.iter().map(|km| PasetoSymmetricKey::<V1, Local>::from(mk_key::<32>(km.sym))).collect();
            run_parser_layer!(layer, V1, Local, ops, toks, keys, assert = no)
        }
        (2, false) => {
            let keys: Vec<_> =
                kms.iter().map(|km| PasetoSymmetricKey::<V2, Local>::from(mk_key::<32>(km.sym))).collect();
            run_parser_layer!(layer, V2, Local, ops, toks, keys, assert = no)
        }
        (3, false) => {
            let keys: Vec<_> =
                kms.iter().map(|km| PasetoSymmetricKey::<V3, Local>::from(mk_key::<32>(km.sym))).collect();
            run_parser_layer!(layer, V3, Local, ops, toks, keys, assert = yes)
        }
        (4, false) => {
            let keys: Vec<_> =
                kms.iter().map(|km| PasetoSymmetricKey::<V4, Local>::from(mk_key::<32>(km.sym))).collect();
            run_parser_layer!(layer, V4, Local, ops, toks, keys, assert = yes)
        }
        (1, true) => {
            let keys: Vec<_> =
                kms.iter().map(|km| PasetoAsymmetricPublicKey::<V1, Public>::from(km.rsa_pk.as_slice())).collect();
            run_parser_layer!(layer, V1, Public, ops, toks, keys, assert = no)
        }
        (2, true) => {
            let raw: Vec<_> = kms.iter().map(|km| mk_key::<32>(km.ed_pk)).collect();
            let keys: Vec<_> = raw.iter().map(PasetoAsymmetricPublicKey::<V2, Public>::from).collect();
            run_parser_layer!(layer, V2, Public, ops, toks, keys, assert = no)
        }
        (3, true) => {
            let raw: Vec<_> = kms.iter().map(|km| mk_key::<49>(km.p384_pk)).collect();
            let keys: Vec<_> =
                raw.iter().map(|k| PasetoAsymmetricPublicKey::<V3, Public>::try_from(k).unwrap()).collect();
            run_parser_layer!(layer, V3, Public, ops, toks, keys, assert = yes)
        }
        (4, true) => {
            let raw: Vec<_> = kms.iter().map(|km| mk_key::<32>(km.ed_pk)).collect();
            let keys: Vec<_> = raw.iter().map(PasetoAsymmetricPublicKey::<V4, Public>::from).collect();
            run_parser_layer!(layer, V4, Public, ops, toks, keys, assert = yes)
        }
        _ => unreachable!(),
    }));
    match r {
        Ok(v) => v,
        Err(_) => vec![(Out::Panic(LAST_PANIC.with(|p| p.borrow().clone())), vec![]); n_parse],
    }
}

/// Convenience: one parse through layer `layer` (Core = try_decrypt/try_verify; the
/// result string is returned as a JSON string value so the three layers are uniform).
pub fn present(
    pr: Proto,
    layer: Layer,
    token: &str,
    km: &KeyMat,
    footer: Option<&str>,
    assertion: Option<&str>,
) -> (Out<Value>, Vec<Call>) {
    match layer {
        Layer::Core => {
            let o = match core_present(pr, token, km, footer, assertion) {
                Out::Ok(s) => Out::Ok(Value::String(s)),
                Out::ErrPre(s) => Out::ErrPre(s),
                Out::ErrPost(s) => Out::ErrPost(s),
                Out::ErrBuild(s) => Out::ErrBuild(s),
                Out::Panic(s) => Out::Panic(s),
            };
            (o, vec![])
        }
        _ => {
            let mut ops = vec![];
            if let Some(f) = footer {
                ops.push(POp::SetFooter(f.to_string()));
            }
            if let Some(a) = assertion {
                if pr.has_assertion() {
                    ops.push(POp::SetAssertion(a.to_string()));
                }
            }
            // a counting validator on a key that is never in the payload: it must not
            // run unless the token authenticated
            // (registered through either route in turn on the generic parser: with and without an expected claim)
            if layer == Layer::Generic && KEY_ROUTE.with(|c| c.get()) % 2 == 1 {
                ops.push(POp::ExtendValidators(vec![("pv-probe".into(), VKind::Accept)]));
            } else {
                ops.push(POp::ValidateClaim { key: "pv-probe".into(), kind: VKind::Accept });
            }
            ops.push(POp::Parse { tok: 0, key: 0 });
            let toks = vec![token.to_string()];
            let kms = vec![km.clone()];
            run_parser(pr, layer, &ops, &toks, &kms).into_iter().next().unwrap()
        }
    }
}

// ---------------------------------------------------------------------------------
// the core builder object Paseto<V,P>, used for several tokens
// ---------------------------------------------------------------------------------

#[derive(Clone, Debug)]
pub enum COp {
    Payload(String),
    Footer(String),
    Assertion(String),
    /// try_encrypt / try_sign with key `key` (index) and nonce seed
    Mint { key: usize, seed: [u8; 32] },
    /// continue with a clone of the builder object
    CloneObj,
}

macro_rules! run_core_local {
    ($V:ident, $N:literal, $ops:expr, $kms:expr, assert=$has:tt) => {{
        let keys: Vec<_> = $kms.iter().map(|km| PasetoSymmetricKey::<$V, Local>::from(mk_key::<32>(km.sym))).collect();
        let mut outs: Vec<Out<String>> = vec![];
        let mut b = Paseto::<$V, Local>::builder();
        for op in $ops.iter() {
            match op {
                COp::Payload(m) => {
                    b.set_payload(Payload::from(m.as_str()));
                }
                COp::Footer(f) => {
                    b.set_footer(Footer::from(f.as_str()));
                }
                COp::Assertion(_a) => {
                    run_generic_builder!(@assert $has, b, _a);
                }
                COp::CloneObj => {
                    #[allow(clippy::clone_on_copy)]
                    let c = b.clone();
                    b = c;
                }
                COp::Mint { key, seed } => {
                    let nk = Key::<$N>::from(&seed[..$N]);
                    let nonce = PasetoNonce::<$V, Local>::from(&nk);
                    let k = &keys[*key];
                    let r = guard(|| match b.try_encrypt(k, &nonce) {
                        Ok(t) => Out::Ok(t),
                        Err(e) => Out::ErrBuild(format!("cipher:{}", variant_name(&format!("{:?}", e)))),
                    });
                    outs.push(r);
                }
            }
        }
        outs
    }};
}

macro_rules! run_core_public {
    ($V:ident, $ops:expr, $keys:expr, assert=$has:tt) => {{
        let mut outs: Vec<Out<String>> = vec![];
        let mut b = Paseto::<$V, Public>::builder();
        for op in $ops.iter() {
            match op {
                COp::Payload(m) => {
                    b.set_payload(Payload::from(m.as_str()));
                }
                COp::Footer(f) => {
                    b.set_footer(Footer::from(f.as_str()));
                }
                COp::Assertion(_a) => {
                    run_generic_builder!(@assert $has, b, _a);
                }
                COp::CloneObj => {
                    #[allow(clippy::clone_on_copy)]
                    let c = b.clone();
                    b = c;
                }
                COp::Mint { key, .. } => {
                    let k = &$keys[*key];
                    let r = guard(|| match b.try_sign(k) {
                        Ok(t) => Out::Ok(t),
                        Err(e) => Out::ErrBuild(format!("cipher:{}", variant_name(&format!("{:?}", e)))),
                    });
                    outs.push(r);
                }
            }
        }
        outs
    }};
}

/// Runs a call history on ONE core builder object; one outcome per Mint.
pub fn run_core_object(pr: Proto, ops: &[COp], kms: &[KeyMat]) -> Vec<Out<String>> {
    let n = ops.iter().filter(|o| matches!(o, COp::Mint { .. })).count().max(1);
    let r = catch_unwind(AssertUnwindSafe(|| match (pr.v, pr.public) {
        (1, false) => run_core_local!(V1, 32, ops, kms, assert = no),
        (2, false) => run_core_local!(V2, 24, ops, kms, assert = no),
        (3, false) => run_core_local!(V3, 32, ops, kms, assert = yes),
        (4, false) => run_core_local!(V4, 32, ops, kms, assert = yes),
        (1, true) => {
            let keys: Vec<_> = kms.iter().map(|km| PasetoAsymmetricPrivateKey::<V1, Public>::from(km.rsa_sk.as_slice())).collect();
            run_core_public!(V1, ops, keys, assert = no)
        }
        (2, true) => {
            let raw: Vec<_> = kms.iter().map(|km| mk_key::<64>(km.ed_sk)).collect();
            let keys: Vec<_> = raw.iter().map(PasetoAsymmetricPrivateKey::<V2, Public>::from).collect();
            run_core_public!(V2, ops, keys, assert = no)
        }
        (3, true) => {
            let raw: Vec<_> = kms.iter().map(|km| mk_key::<48>(km.p384_sk)).collect();
            let keys: Vec<_> = raw.iter().map(PasetoAsymmetricPrivateKey::<V3, Public>::from).collect();
            run_core_public!(V3, ops, keys, assert = yes)
        }
        (4, true) => {
            let raw: Vec<_> = kms.iter().map(|km| mk_key::<64>(km.ed_sk)).collect();
            let keys: Vec<_> = raw.iter().map(PasetoAsymmetricPrivateKey::<V4, Public>::from).collect();
            run_core_public!(V4, ops, keys, assert = yes)
        }
        _ => unreachable!(),
    }));
    match r {
        Ok(v) => v,
        Err(_) => vec![Out::Panic(LAST_PANIC.with(|p| p.borrow().clone())); n],
    }
}
