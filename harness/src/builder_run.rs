//! Executes builder call histories (printed by MC_Builder or drawn at random) on the
//! real GenericBuilder / PasetoBuilder and records what was observed after every
//! build, projected to the abstract values of spec/Builder.tla.  The recorded
//! behaviours are validated by TLC against spec/trace/BuilderTrace.tla.

use crate::api::*;
use crate::conc;
use crate::edits::unb64;
use rand::rngs::StdRng;
use rand::Rng;
use serde::Deserialize;
use serde_json::{json, Value};
use std::collections::HashMap;
use time::format_description::well_known::Rfc3339;
use time::OffsetDateTime;

#[derive(Deserialize, Clone, Debug)]
pub struct AOp {
    pub op: String,
    #[serde(default)]
    pub k: String,
    #[serde(default)]
    pub v: String,
}

#[derive(Deserialize, Clone, Debug)]
pub struct Beh {
    pub layer: String,
    pub ops: Vec<AOp>,
}

/// concrete claim key / values of one instance
pub struct BInst {
    pub keys: HashMap<String, String>,
    pub vals: HashMap<(String, String), Value>,
    pub footer: String,
    pub assertion: String,
    pub footer2: String,
    pub assertion2: String,
    pub via: Via,
}

const TIME_KEYS: [&str; 3] = ["exp", "nbf", "iat"];
const ABS_KEYS: [&str; 9] = ["exp", "nbf", "iat", "iss", "sub", "aud", "jti", "ca", "cb"];

fn json_tree(r: &mut StdRng, depth: usize) -> Value {
    let pick = if depth == 0 { r.gen_range(0..6) } else { r.gen_range(0..8) };
    match pick {
        0 => Value::String(conc::message(r, 0, 0)),
        1 => {
            let l = r.gen_range(1..20);
            let c = r.gen_range(0..6);
            Value::String(conc::message(r, l, c))
        }
        2 => json!(r.gen::<i64>()),
        3 => json!(r.gen::<u64>()),
        4 => json!(r.gen::<bool>()),
        // numbers with an exact short decimal form
        5 => json!((r.gen_range(-100000i64..100000) as f64) / 8.0),
        6 => {
            let n = r.gen_range(0..4);
            Value::Array((0..n).map(|_| json_tree(r, depth - 1)).collect())
        }
        _ => {
            let n = r.gen_range(0..4);
            let mut m = serde_json::Map::new();
            for i in 0..n {
                let kl = r.gen_range(1..6);
                let kc = r.gen_range(0..6);
                let mut k = conc::message(r, kl, kc);
                k.push_str(&i.to_string());
                m.insert(k, json_tree(r, depth - 1));
            }
            Value::Object(m)
        }
    }
}

pub fn make_binst(r: &mut StdRng, variant: usize) -> BInst {
    let mut keys = HashMap::new();
    for k in ABS_KEYS {
        keys.insert(k.to_string(), k.to_string());
    }
    // custom keys: plain, unicode, with escapes, long
    let customs: [(&str, &str); 18] = [
        (" lead", "trail "),
        ("\tboth\n", "\u{a0}nbsp"),
        ("id", "id\n"),
        ("custom-a", "custom-b"),
        ("a/b", "x~0y"),
        ("https://example.com/roles", "~1"),
        ("/", "~"),
        ("ключ", "鍵"),
        ("a\"quote", "b\\slash"),
        ("😀", "a b"),
        ("Exp", "EXP "),
        ("exp ", " iat"),
        ("nbf\n", "\texp"),
        ("iss ", " sub"),
        // characters JSON must escape as \uXXXX or may leave alone, but that other escaping schemes treat
        // differently: NUL, DEL, a combining mark, zero-width space, BOM, a private-use code point
        ("nul\0", "del\u{7f}"),
        ("e\u{301}", "\u{200b}zw"),
        ("\u{feff}bom", "\u{e000}pua"),
        ("\u{1}\u{1f}", "\u{85}\u{2028}"),
    ];
    let (ca, cb) = if variant % 7 >= 4 { customs[0] } else { customs[variant % customs.len()] };
    keys.insert("ca".into(), if variant % 11 == 10 && variant % 7 < 4 { "x".repeat(1024) } else { ca.to_string() });
    keys.insert("cb".into(), cb.to_string());
    let mut vals = HashMap::new();
    for k in ABS_KEYS {
        for (i, v) in ["v1", "v2", "v3"].iter().enumerate() {
            let val = if TIME_KEYS.contains(&k) {
                // caller-supplied instants, far from the defaults
                let offs = ["Z", "+00:00", "-07:00", "+05:30"][(variant + i) % 4];
                json!(format!("20{}-0{}-1{}T0{}:00:00{}", 31 + i, 1 + (variant % 9), i, variant % 10, offs))
            } else if ["iss", "sub", "aud", "jti"].contains(&k) {
                let l = 1 + (variant * 7 + i * 3) % 24;
                let c = variant + i;
                json!(format!("{}-{}-{}", k, v, conc::message(r, l, c)))
            } else {
                let mut t = json_tree(r, 3);
                // make the three values of one key pairwise distinct
                if let Value::Object(ref mut m) = t {
                    m.insert("#".into(), json!(i));
                } else {
                    t = json!([t, i]);
                }
                if variant % 3 == 0 {
                    t = json!(format!("{}-{}", v, variant));
                }
                // shapes that resemble the {key: value} wrapper every claim serialises to
                // (the member is named like the claim itself)
                let ck: &str = keys[k].as_str();
                if variant % 7 == 4 {
                    t = json!({ ck: format!("{}-{}", v, variant) });
                }
                if variant % 7 == 5 {
                    t = json!({ ck: { ck: i } });
                }
                if variant % 7 == 6 {
                    t = json!({ ck: null, "other": i });
                }
                // bare scalars at the top level of the claim: integer / float boundaries, null, booleans,
                // empty and blank strings (all with an exact short decimal form, so that reading them
                // back does not depend on the JSON parser's float rounding)
                if variant % 5 == 3 {
                    let specials: [[Value; 3]; 8] = [
                        [json!(u64::MAX), json!(i64::MIN), json!(-0.0)],
                        [json!(1e21), json!(1.5), json!(0)],
                        [json!(true), json!(false), json!(null)],
                        [json!(i64::MAX), json!(i64::MAX as u64 + 1), json!(255)],
                        [json!(""), json!(" "), json!("\u{0}")],
                        [json!(-1), json!(1u64 << 53), json!((1u64 << 53) + 1)],
                        [json!(1e-7), json!(-1e21), json!(4294967296u64)],
                        [json!([]), json!({}), json!([null])],
                    ];
                    t = specials[(variant / 5) % specials.len()][i].clone();
                }
                t
            };
            vals.insert((k.to_string(), v.to_string()), val);
        }
    }
    // coincidences between claims: the two custom claims carry the same values; a value that is the name
    // of another claim
    if variant % 9 == 7 {
        for v in ["v1", "v2", "v3"] {
            let shared = vals[&("ca".to_string(), v.to_string())].clone();
            vals.insert(("cb".to_string(), v.to_string()), shared);
        }
    }
    if variant % 9 == 8 {
        vals.insert(("ca".to_string(), "v1".to_string()), json!(keys["cb"].clone()));
        vals.insert(("cb".to_string(), "v1".to_string()), json!("exp"));
        vals.insert(("ca".to_string(), "v2".to_string()), json!("iat"));
        vals.insert(("cb".to_string(), "v2".to_string()), json!(keys["ca"].clone()));
    }
    let foots = ["kid-1", "{\"kid\":\"k1\"}", "é", "f"];
    BInst {
        keys,
        vals,
        footer: foots[variant % foots.len()].to_string(),
        footer2: ["kid-12", "{\"kid\":\"k2\"}", "e", " ", "ab?"][variant % 5].to_string(),
        assertion: format!("assert-{}", variant),
        assertion2: ["assert", " ", "Assert-0", "\u{e9}"][variant % 4].to_string(),
        via: if (variant / 3) % 2 == 0 { Via::Typed } else { Via::Any },
    }
}

impl BInst {
    pub fn footer_named(&self, n: &str) -> Option<String> {
        match n {
            "none" => None,
            "empty" => Some(String::new()),
            "f2" => Some(self.footer2.clone()),
            _ => Some(self.footer.clone()),
        }
    }
    pub fn assertion_named(&self, n: &str) -> Option<String> {
        match n {
            "none" => None,
            "empty" => Some(String::new()),
            "a2" => Some(self.assertion2.clone()),
            _ => Some(self.assertion.clone()),
        }
    }
}

/// Generic layer only: the two custom-claim slots become the reserved time keys, carried by a user-defined
/// claim type (CustomClaim refuses them), with null and non-timestamp values - GenericBuilder has no opinion
/// about time claims, what was set must be in the token (C14).
pub fn timekey_variant(inst: &mut BInst) {
    for k in ["exp", "nbf", "iat"] {
        inst.keys.insert(k.to_string(), format!("-{}", k));
    }
    inst.keys.insert("ca".into(), "nbf".into());
    inst.keys.insert("cb".into(), "exp".into());
    inst.via = Via::Any;
    inst.vals.insert(("ca".into(), "v1".into()), Value::Null);
    inst.vals.insert(("ca".into(), "v2".into()), json!("2031-01-01T00:00:00Z"));
    inst.vals.insert(("ca".into(), "v3".into()), json!(0));
    inst.vals.insert(("cb".into(), "v1".into()), json!(1546300800));
    inst.vals.insert(("cb".into(), "v2".into()), Value::Null);
    inst.vals.insert(("cb".into(), "v3".into()), json!("never"));
}

/// numbering of nonces by first occurrence in this run
#[derive(Default)]
pub struct NonceBook {
    pub seen: HashMap<Vec<u8>, usize>,
}

impl NonceBook {
    /// returns (id, number of distinct nonces seen before)
    pub fn note(&mut self, n: Vec<u8>) -> (usize, usize) {
        let before = self.seen.len();
        let id = *self.seen.entry(n).or_insert(before + 1);
        (id, before)
    }
}

fn parse_time(v: &Value) -> Option<OffsetDateTime> {
    v.as_str().and_then(|s| OffsetDateTime::parse(s, &Rfc3339).ok())
}

/// Runs one behaviour; returns the ops annotated with observations
pub fn run_behaviour(pr: Proto, beh: &Beh, inst: &BInst, km: &KeyMat, book: &mut NonceBook) -> Vec<Value> {
    let layer = Layer::parse(&beh.layer);
    let mut bops: Vec<BOp> = vec![];
    for o in &beh.ops {
        match o.op.as_str() {
            "set" => bops.push(BOp::SetClaim {
                key: inst.keys[&o.k].clone(),
                value: inst.vals[&(o.k.clone(), o.v.clone())].clone(),
                via: inst.via.clone(),
            }),
            "remove" => bops.push(BOp::RemoveClaim(inst.keys[&o.k].clone())),
            "extend" => bops.push(BOp::ExtendClaims(vec![(inst.keys[&o.k].clone(), inst.vals[&(o.k.clone(), o.v.clone())].clone())])),
            "extend2" => bops.push(BOp::ExtendClaims(vec![
                (inst.keys["ca"].clone(), inst.vals[&("ca".to_string(), o.v.clone())].clone()),
                (inst.keys["cb"].clone(), inst.vals[&("cb".to_string(), o.v.clone())].clone()),
            ])),
            "extendw" => {
                // a boxed claim object handed to extend_claims: it serialises as {key: value}
                let ck = inst.keys[&o.k].clone();
                let obj = json!({ ck.clone(): inst.vals[&(o.k.clone(), o.v.clone())].clone() });
                bops.push(BOp::ExtendClaims(vec![(ck, obj)]));
            }
            "ack" => bops.push(BOp::Ack),
            // time passes between two calls (the defaults stay those of the creation instant)
            "tick" => bops.push(BOp::Sleep(1100)),
            "footer" => bops.push(BOp::SetFooter(inst.footer_named(&o.v).unwrap_or_default())),
            "assertion" => bops.push(BOp::SetAssertion(inst.assertion_named(&o.v).unwrap_or_default())),
            "build" => bops.push(BOp::Build),
            _ => {}
        }
    }
    let t0 = OffsetDateTime::now_utc();
    CREATED.with(|c| *c.borrow_mut() = None);
    let outs = run_builder(pr, layer, &bops, km);
    // defaults are those of the builder's creation: the bracket ends right after default() returned
    let t1 = CREATED.with(|c| *c.borrow()).unwrap_or_else(OffsetDateTime::now_utc);
    let mut outs = outs.into_iter();
    // footer / assertion in force at each build
    let mut footer_s: Option<String> = None;
    let mut assertion_s: Option<String> = None;
    let mut fname = "none".to_string();
    let mut aname = "none".to_string();
    let mut annotated = vec![];
    for o in &beh.ops {
        match o.op.as_str() {
            "footer" => {
                footer_s = inst.footer_named(&o.v);
                fname = if o.v == "empty" { "none".into() } else { o.v.clone() };
            }
            "assertion" if pr.has_assertion() => {
                assertion_s = inst.assertion_named(&o.v);
                aname = if o.v == "empty" { "none".into() } else { o.v.clone() };
            }
            _ => {}
        }
        let mut footer: Option<&str> = footer_s.as_deref();
        let mut assertion: Option<&str> = assertion_s.as_deref();
        if o.op != "build" {
            annotated.push(json!({"op": o.op, "k": o.k, "v": o.v}));
            continue;
        }
        let out = outs.next().unwrap_or(Out::Panic("missing build outcome".into()));
        let obs = match out {
            Out::Ok(tok) => {
                let mut nonce = (0usize, 0usize);
                if !pr.public {
                    let seg = tok.split('.').nth(2).unwrap_or("");
                    let nl = if pr.v == 2 { 24 } else { 32 };
                    if let Some(d) = unb64(seg) {
                        if d.len() >= nl {
                            nonce = book.note(d[..nl].to_vec());
                        }
                    }
                }
                // C05 / C06: which footer / assertion is the token bound to?  First the pair set last on the
                // builder; if that does not authenticate, every pair of the instance's values
                let mut bound = (fname.clone(), if pr.has_assertion() { aname.clone() } else { "na".to_string() });
                let cand_f: Vec<(String, Option<String>)> = ["none", "f1", "f2"].iter().map(|n| (n.to_string(), inst.footer_named(n))).collect();
                let cand_a: Vec<(String, Option<String>)> = if pr.has_assertion() {
                    ["none", "a1", "a2"].iter().map(|n| (n.to_string(), inst.assertion_named(n))).collect()
                } else {
                    vec![("na".to_string(), None)]
                };
                let mut alt_pair: Option<(Option<String>, Option<String>)> = None;
                if !present(pr, Layer::Generic, &tok, km, footer, assertion).0.is_ok() {
                    'scan: for (fnm, fv) in &cand_f {
                        for (anm, av) in &cand_a {
                            if present(pr, Layer::Generic, &tok, km, fv.as_deref(), av.as_deref()).0.is_ok() {
                                bound = (fnm.clone(), anm.clone());
                                alt_pair = Some((fv.clone(), av.clone()));
                                break 'scan;
                            }
                        }
                    }
                }
                if let Some((fv, av)) = &alt_pair {
                    footer = fv.as_deref();
                    assertion = av.as_deref();
                }
                // read the token back through the matching GenericParser (no expectations)
                match present(pr, Layer::Generic, &tok, km, footer, assertion).0 {
                    Out::Ok(parsed) => match parsed {
                        Value::Object(m) => {
                            let mut payload: Vec<Value> = vec![];
                            let exp_d = parse_time(m.get("exp").unwrap_or(&Value::Null));
                            let iat_d = parse_time(m.get("iat").unwrap_or(&Value::Null));
                            for (ck, cv) in &m {
                                let ak = ABS_KEYS.iter().find(|a| inst.keys[**a] == *ck);
                                let ak = match ak {
                                    Some(a) => *a,
                                    None => {
                                        payload.push(json!(["?", format!("unexpected member {}", ck)]));
                                        continue;
                                    }
                                };
                                let mut id = "other".to_string();
                                for v in ["v1", "v2", "v3"] {
                                    if inst.vals[&(ak.to_string(), v.to_string())] == *cv {
                                        id = v.to_string();
                                    }
                                }
                                for v in ["v1", "v2"] {
                                    if id == "other" && json!({ ck.clone(): inst.vals[&(ak.to_string(), v.to_string())].clone() }) == *cv {
                                        id = format!("w{}", v);
                                    }
                                }
                                if id == "other" && TIME_KEYS.contains(&ak) {
                                    // a default: the builder's creation time (iat, nbf) or one hour later (exp)
                                    if let Some(t) = parse_time(cv) {
                                        let shift = if ak == "exp" { time::Duration::hours(1) } else { time::Duration::ZERO };
                                        let in_bracket = t0 + shift <= t && t <= t1 + shift;
                                        let mut consistent = true;
                                        if ak == "exp" {
                                            if let (Some(e), Some(i)) = (exp_d, iat_d) {
                                                // when iat is the default too, exp is exactly one hour later
                                                if t0 <= i && i <= t1 && e - i != time::Duration::hours(1) {
                                                    consistent = false;
                                                }
                                            }
                                        }
                                        if ak == "nbf" {
                                            if let Some(i) = iat_d {
                                                if t0 <= i && i <= t1 && m.get("nbf") != m.get("iat") {
                                                    consistent = false;
                                                }
                                            }
                                        }
                                        if in_bracket && consistent {
                                            id = "dflt".into();
                                        }
                                    }
                                }
                                payload.push(json!([ak, id]));
                            }
                            // batteries-included end to end: the default PasetoParser on the built token
                            let mut pread = "na".to_string();
                            if layer == Layer::Prelude {
                                for attempt in 0..2 {
                                    let (o, _) = present(pr, Layer::Prelude, &tok, km, footer, assertion);
                                    pread = match &o {
                                        Out::Ok(_) => "ok".to_string(),
                                        Out::ErrPost(d) if d.starts_with("claim:") => "claim".to_string(),
                                        o => format!("{}:{}", o.class(), o.detail()),
                                    };
                                    if pread == "ok" || attempt == 1 {
                                        break;
                                    }
                                    // nbf defaults to the creation instant: give a coarse clock a moment
                                    std::thread::sleep(std::time::Duration::from_millis(3));
                                }
                            }
                            json!({"res": "ok", "key": "-", "payload": payload, "nonce": nonce.0, "nseen": nonce.1, "pread": pread,
                                   "bound": {"f": bound.0, "a": bound.1}})
                        }
                        _ => json!({"res": "unreadable", "key": "-", "payload": [], "nonce": 0, "nseen": 0, "detail": "payload is not a JSON object"}),
                    },
                    o => {
                        // diagnose: which of the values set on the builder did the token NOT bind?
                        let mut alt = "none";
                        if footer.is_some() && present(pr, Layer::Generic, &tok, km, None, assertion).0.is_ok() {
                            alt = "nofooter";
                        } else if assertion.is_some() && present(pr, Layer::Generic, &tok, km, footer, None).0.is_ok() {
                            alt = "noassertion";
                        } else if footer.is_some() && assertion.is_some() && present(pr, Layer::Generic, &tok, km, None, None).0.is_ok() {
                            alt = "neither";
                        }
                        json!({"res": "unreadable", "key": "-", "payload": [], "nonce": 0, "nseen": 0, "alt": alt,
                               "detail": format!("built token does not authenticate: {}:{}", o.class(), o.detail())})
                    }
                }
            }
            Out::ErrBuild(d) if d.starts_with("dup:") => {
                let ck = &d[4..];
                let ak = ABS_KEYS.iter().find(|a| inst.keys[**a] == ck).copied().unwrap_or("?");
                json!({"res": "dup", "key": ak, "payload": [], "nonce": 0, "nseen": 0})
            }
            o => json!({"res": o.class(), "key": "-", "payload": [], "nonce": 0, "nseen": 0, "detail": o.detail()}),
        };
        annotated.push(json!({"op": "build", "k": "", "v": "", "obs": obs}));
    }
    annotated
}

/// a random call history over the alphabet of a family, with builds sprinkled in
pub fn random_behaviour(r: &mut StdRng, family: &str, maxlen: usize) -> Beh {
    let layer = if family == "c14" { "generic" } else { "prelude" };
    let n = r.gen_range(1..=maxlen);
    let mut ops: Vec<AOp> = vec![];
    let mut supplied: HashMap<String, usize> = HashMap::new();
    for _ in 0..n {
        let x = r.gen_range(0..100);
        let op = if layer == "generic" {
            let k = ["iss", "ca", "cb", "sub", "exp"][r.gen_range(0..5)];
            if x < 55 {
                AOp { op: "set".into(), k: k.into(), v: ["v1", "v2", "v3"][r.gen_range(0..3)].into() }
            } else if x < 75 {
                AOp { op: "remove".into(), k: k.into(), v: "".into() }
            } else if x < 80 {
                AOp { op: "footer".into(), k: "".into(), v: "f1".into() }
            } else {
                AOp { op: "build".into(), k: "".into(), v: "".into() }
            }
        } else if x < 50 {
            // prefer fresh keys so that long histories without a duplicate exist
            let fresh: Vec<&str> = ABS_KEYS.iter().copied().filter(|k| !supplied.contains_key(*k)).collect();
            let k = if !fresh.is_empty() && r.gen_range(0..10) < 8 { fresh[r.gen_range(0..fresh.len())] } else { ABS_KEYS[r.gen_range(0..9)] };
            let c = supplied.entry(k.to_string()).or_insert(0);
            let v = ["v1", "v2", "v3"][(*c).min(2)];
            *c += 1;
            AOp { op: "set".into(), k: k.into(), v: v.into() }
        } else if x < 58 {
            AOp { op: "ack".into(), k: "".into(), v: "".into() }
        } else if x < 66 {
            AOp { op: "footer".into(), k: "".into(), v: "f1".into() }
        } else if x < 72 {
            AOp { op: "assertion".into(), k: "".into(), v: "a1".into() }
        } else {
            AOp { op: "build".into(), k: "".into(), v: "".into() }
        };
        ops.push(op);
    }
    ops.push(AOp { op: "build".into(), k: "".into(), v: "".into() });
    Beh { layer: layer.into(), ops }
}

/// C10: n builds under one key: half from long-lived builder objects (1000 builds each),
/// half from fresh builders, with identical claims, footer and assertion; then the
/// per-bit statistics of all nonces.
pub fn nonce_drive(pr: Proto, layer: &str, n: usize, seed: u64) -> Vec<String> {
    let mut r = conc::rng(seed, &format!("nonce-{}-{}", pr.name(), layer));
    let mut book = NonceBook::default();
    let km = conc::random_keymat(&mut r, 0);
    let mut inst = make_binst(&mut r, 0);
    // footers / assertions of every length class next to the 24 / 32 bytes of a nonce (a nonce that is partly
    // a function of caller input shows as a repeat or as a constant bit)
    let footers: Vec<String> = vec![
        "kid-1".into(), "k".repeat(31), "k".repeat(32), "k".repeat(33), "{\"kid\":\"k4.lid.iVtYQDjr5gEijCSjJC3fQaJm7nCeQSeaty0Jixy8dbsk\"}".into(),
        "x".repeat(64), "".into(), "y".repeat(1024), "\u{e9}".repeat(16), "z".repeat(24),
    ];
    let mut lines = vec![];
    let per_obj = 250.min(n / 2).max(1);
    let mut done = 0usize;
    let mut obj = 0usize;
    let build = AOp { op: "build".into(), k: "".into(), v: "".into() };
    let prefix = vec![
        AOp { op: "set".into(), k: "ca".into(), v: "v1".into() },
        AOp { op: "footer".into(), k: "".into(), v: "f1".into() },
    ];
    while done < n / 2 {
        inst.footer = footers[obj % footers.len()].clone();
        inst.assertion = footers[(obj / 2 + 3) % footers.len()].clone();
        let mut ops = prefix.clone();
        if pr.has_assertion() && obj % 3 != 0 {
            ops.push(AOp { op: "assertion".into(), k: "".into(), v: "a1".into() });
        }
        if obj % 2 == 1 {
            // varying claims between the builds of one builder
            for j in 0..per_obj {
                ops.push(AOp { op: "set".into(), k: "cb".into(), v: ["v1", "v2", "v3"][j % 3].into() });
                ops.push(build.clone());
            }
        } else {
            ops.extend(std::iter::repeat(build.clone()).take(per_obj));
        }
        let beh = Beh { layer: if layer == "prelude" { "generic".into() } else { layer.into() }, ops };
        // the prelude builder refuses a repeated key, so its long-lived objects build identical tokens only
        let beh = if layer == "prelude" {
            let mut ops = prefix.clone();
            ops.extend(std::iter::repeat(build.clone()).take(per_obj));
            Beh { layer: "prelude".into(), ops }
        } else {
            beh
        };
        let ops = run_behaviour(pr, &beh, &inst, &km, &mut book);
        lines.push(json!({"id": format!("n{}:{}:{}", obj, pr.name(), layer), "layer": beh.layer, "pr": pr.name(), "ops": ops}).to_string());
        done += per_obj;
        obj += 1;
    }
    while done < n {
        inst.footer = footers[obj % footers.len()].clone();
        let mut ops = prefix.clone();
        ops.push(build.clone());
        let beh = Beh { layer: layer.into(), ops };
        let ops = run_behaviour(pr, &beh, &inst, &km, &mut book);
        lines.push(json!({"id": format!("n{}:{}:{}", obj, pr.name(), layer), "layer": beh.layer, "pr": pr.name(), "ops": ops}).to_string());
        done += 1;
        obj += 1;
    }
    // per-bit one-counts over every distinct nonce plus repeats (repeats are counted as drawn)
    let nl = if pr.v == 2 { 24 } else { 32 };
    let mut counts = vec![0usize; nl * 8];
    for nonce in book.seen.keys() {
        for (i, b) in nonce.iter().enumerate() {
            for bit in 0..8 {
                if b & (1 << bit) != 0 {
                    counts[i * 8 + bit] += 1;
                }
            }
        }
    }
    lines.push(json!({"id": format!("stats:{}:{}", pr.name(), layer), "layer": "stats", "pr": pr.name(),
                      "n": book.seen.len(), "counts": counts, "ops": []}).to_string());
    lines
}
