//! C08: library vs. the specification's algorithm (term evaluator).
//!  - pins the evaluator to the official test vectors (a pin failure is a tool error),
//!  - local: evaluator token == library token (byte-identical); the library decrypts every
//!    evaluator-built token (including raw-wire-nonce tokens it never builds itself),
//!  - public: library-signed tokens verify under the evaluator (PAE from the term, primitive
//!    verify called directly); evaluator-signed tokens verify under the library,
//!  - the footer segment is present iff the footer is non-empty.

use crate::api::*;
use crate::conc;
use crate::edits::{p384_negate, unb64, Parts};
use crate::terms::*;
use rusty_paseto::prelude::Key;
use rand::Rng;
use serde_json::{json, Value};

pub struct COut {
    pub evaluations: usize,
    pub distinct: usize,
    pub violations: Vec<Value>,
    pub nviol: usize,
    pub samples: Vec<Value>,
    pub pinned: usize,
}

pub fn entry<'a>(terms: &'a [Value], pr: &str, variant: &str) -> &'a Value {
    terms.iter().find(|e| e["pr"] == pr && e["variant"] == variant).expect("term entry")
}

fn keymat_with(sym: [u8; 32]) -> KeyMat {
    conc::keymat_from(sym, 0)
}

/// C08 on a re-used core builder object: of which (message, footer, assertion) combination is the minted text the
/// specification's token?  local: byte-identical to the evaluator's token for that combination and the mint's nonce
/// seed; public: carries that message and its signature verifies under the evaluator's signing input for that
/// combination.  Returns the combinations that fit ("m1|f1|none", ...); the trace specification demands that the
/// object's current values are among them (exactly them for local tokens).
pub fn spec_of(terms: &[Value], pr: Proto, tok: &str, km: &KeyMat, seed32: &[u8; 32], msgs: &[String; 2], f1: &str, a1: &str) -> Vec<String> {
    let prn = pr.name();
    let e = entry(terms, &prn, "derived");
    let seed_len = if pr.v == 2 { 24 } else { 32 };
    let mut fits = vec![];
    let decoded = if pr.public { Parts::parse(tok).and_then(|p| unb64(&p.payload)) } else { None };
    for (mn, m) in [("m1", &msgs[0]), ("m2", &msgs[1])] {
        for (fname, f) in [("none", ""), ("f1", f1)] {
            for (aname, a) in [("none", ""), ("a1", a1)] {
                if !pr.has_assertion() && aname != "none" {
                    continue;
                }
                let env = Env { km, seed: &seed32[..seed_len], msg: m.as_bytes(), footer: f.as_bytes(), assertion: a.as_bytes() };
                let ok = if !pr.public {
                    token_of(e, &env).map(|t| t == tok).unwrap_or(false)
                } else {
                    let (alg, input) = signing_input(e, &env).unwrap_or_default();
                    let siglen = match alg.as_str() { "ed25519" => 64, "ecdsa-p384" => 96, _ => 256 };
                    let segs_ok = tok.split('.').count() == if f.is_empty() { 3 } else { 4 }
                        && (f.is_empty() || tok.split('.').nth(3).and_then(unb64).map(|d| d == f.as_bytes()).unwrap_or(false));
                    match &decoded {
                        Some(d) if d.len() >= siglen && segs_ok => {
                            let (mm, sig) = d.split_at(d.len() - siglen);
                            mm == m.as_bytes() && match alg.as_str() {
                                "ed25519" => ed25519_verify(&km.ed_pk, &input, sig),
                                "ecdsa-p384" => p384_verify(&km.p384_pk, &input, sig),
                                _ => rsa_pss_verify(&km.rsa_pk, &input, sig),
                            }
                        }
                        _ => false,
                    }
                };
                if ok {
                    fits.push(format!("{}|{}|{}", mn, fname, aname));
                }
            }
        }
    }
    fits
}

/// Pins the evaluator to the official vectors. Returns Err(description) on a mismatch.
pub fn pin(terms: &[Value], vectors: &[Value]) -> Result<usize, String> {
    let mut n = 0;
    for v in vectors {
        let ver = v["version"].as_u64().unwrap();
        let purpose = v["purpose"].as_str().unwrap();
        let prn = format!("v{}.{}", ver, purpose);
        let payload = v["payload"].as_str().unwrap_or("");
        let footer = v["footer"].as_str().unwrap_or("");
        let assertion = v["assertion"].as_str().unwrap_or("");
        let token = v["token"].as_str().unwrap();
        let e = entry(terms, &prn, "derived");
        if purpose == "local" {
            let mut sym = [0u8; 32];
            sym.copy_from_slice(&hex::decode(v["key"].as_str().unwrap()).unwrap());
            let km = keymat_with(sym);
            let seed = hex::decode(v["nonce"].as_str().unwrap()).unwrap();
            let env = Env { km: &km, seed: &seed, msg: payload.as_bytes(), footer: footer.as_bytes(), assertion: assertion.as_bytes() };
            let got = token_of(e, &env)?;
            if got != token {
                return Err(format!("vector {}: evaluator token differs\n  evaluator: {}\n  official:  {}", v["name"], got, token));
            }
        } else {
            let mut km = keymat_with([7u8; 32]);
            let sk = hex::decode(v["sk"].as_str().unwrap()).unwrap();
            let pk = hex::decode(v["pk"].as_str().unwrap()).unwrap();
            if ver == 3 {
                km.p384_sk.copy_from_slice(&sk);
                km.p384_pk.copy_from_slice(&pk);
            } else {
                km.ed_sk.copy_from_slice(&sk);
                km.ed_pk.copy_from_slice(&pk);
            }
            let env = Env { km: &km, seed: &[], msg: payload.as_bytes(), footer: footer.as_bytes(), assertion: assertion.as_bytes() };
            // the official token verifies under the evaluator's signing input
            let parts = Parts::parse(token).ok_or("vector token shape")?;
            let dec = unb64(&parts.payload).ok_or("vector payload")?;
            let siglen = if ver == 3 { 96 } else { 64 };
            let (m, sig) = dec.split_at(dec.len() - siglen);
            if m != payload.as_bytes() {
                return Err(format!("vector {}: message bytes differ from the recorded payload", v["name"]));
            }
            let (alg, input) = signing_input(e, &env)?;
            let ok = if alg == "ed25519" { ed25519_verify(&pk, &input, sig) } else { p384_verify(&pk, &input, sig) };
            if !ok {
                return Err(format!("vector {}: official signature does not verify over the evaluator's signing input", v["name"]));
            }
            if alg == "ed25519" {
                let got = token_of(e, &env)?;
                if got != token {
                    return Err(format!("vector {}: evaluator-signed token differs from the official (deterministic) one", v["name"]));
                }
            }
        }
        n += 1;
    }
    Ok(n)
}

fn viol(out: &mut COut, what: String, replay: Value) {
    out.nviol += 1;
    if out.violations.len() < 30 {
        out.violations.push(json!({"props": ["C08"], "what": what, "replay": replay}));
    }
}

/// the library against the official vectors: it must reproduce every local vector token and
/// decrypt / verify every vector token to the recorded payload
pub fn library_vs_vectors(vectors: &[Value], out: &mut COut) {
    for v in vectors {
        let ver = v["version"].as_u64().unwrap() as u8;
        let purpose = v["purpose"].as_str().unwrap();
        let pr = Proto::new(ver, purpose);
        let payload = v["payload"].as_str().unwrap_or("");
        let footer = v["footer"].as_str().unwrap_or("");
        let assertion = v["assertion"].as_str().unwrap_or("");
        let token = v["token"].as_str().unwrap();
        let f = if footer.is_empty() { None } else { Some(footer) };
        let a = if assertion.is_empty() || !pr.has_assertion() { None } else { Some(assertion) };
        let mut km = keymat_with([7u8; 32]);
        if purpose == "local" {
            // the key as the official vectors give it: a hexadecimal string through Key::try_from
            match Key::<32>::try_from(v["key"].as_str().unwrap()) {
                Ok(k) => km.sym.copy_from_slice(k.as_ref()),
                Err(e) => {
                    viol(out, format!("official vector {}: Key::<32>::try_from(hex) failed: {:?}", v["name"], e), json!({"kind": "c08-vector", "vector": v}));
                    continue;
                }
            }
        } else if ver == 3 {
            km.p384_sk.copy_from_slice(&hex::decode(v["sk"].as_str().unwrap()).unwrap());
            km.p384_pk.copy_from_slice(&hex::decode(v["pk"].as_str().unwrap()).unwrap());
        } else {
            km.ed_sk.copy_from_slice(&hex::decode(v["sk"].as_str().unwrap()).unwrap());
            km.ed_pk.copy_from_slice(&hex::decode(v["pk"].as_str().unwrap()).unwrap());
        }
        out.evaluations += 1;
        out.distinct += 1;
        let got = core_present(pr, token, &km, f, a);
        if got != Out::Ok(payload.to_string()) {
            viol(out, format!("official vector {}: the library does not accept the vector token: {}:{}", v["name"], got.class(), got.detail()),
                 json!({"kind": "c08-vector", "vector": v}));
        }
        if purpose == "local" {
            let seed = hex::decode(v["nonce"].as_str().unwrap()).unwrap();
            let mut s32 = [0u8; 32];
            s32[..seed.len()].copy_from_slice(&seed);
            let minted = core_mint(pr, &km, &s32, payload, f, a);
            out.evaluations += 1;
            if minted != Out::Ok(token.to_string()) {
                viol(out, format!("official vector {}: the library's token differs from the vector token", v["name"]),
                     json!({"kind": "c08-vector", "vector": v, "library_token": minted.ok()}));
            }
        }
    }
}

pub fn sweep(terms: &[Value], seed: u64, thorough: bool) -> COut {
    let mut out = COut { evaluations: 0, distinct: 0, violations: vec![], nviol: 0, samples: vec![], pinned: 0 };
    let mut r = conc::rng(seed, "c08");
    let mut lens: Vec<usize> = (0..=(if thorough { 600 } else { 300 })).collect();
    lens.extend(conc::boundary_lengths());
    lens.extend([65535, 65536, 65537]);
    lens.sort();
    lens.dedup();
    let mut rp = conc::rng(seed, "c08-pairs");
    let pairs = conc::string_pairs(&mut rp, 16);
    // footers / assertions whose length has bit 7 set, empty ones, non-ASCII ...
    let mut extras: Vec<String> = vec!["".into(), "x".repeat(128), "y".repeat(200), "z".repeat(255), "w".repeat(256), "é".repeat(70), "q".repeat(384)];
    extras.extend(pairs.iter().map(|p| p.0.clone()));
    for pr in Proto::all() {
        let prn = pr.name();
        let e = entry(terms, &prn, "derived");
        let slow = pr.public && (pr.v == 1 || pr.v == 3);
        let reps = if slow { 1 } else if thorough { 12 } else { 4 };
        let lens_rep: Vec<usize> = (0..reps).flat_map(|_| lens.iter().copied()).collect();
        for (i, len) in lens_rep.iter().enumerate() {
            if *len > 70000 && i >= lens.len() {
                continue;
            }
            if slow && !thorough && i % 5 != 0 && *len > 40 {
                continue;
            }
            if slow && *len > 70000 {
                continue;
            }
            let km = conc::random_keymat(&mut r, i);
            let seed32 = conc::random_bytes32(&mut r);
            let msg = conc::message(&mut r, *len, i);
            let footer: Option<String> = match i % 4 {
                0 => None,
                1 => Some(String::new()),
                _ => Some(extras[(i / 4) % extras.len()].clone()),
            };
            let assertion: Option<String> = if !pr.has_assertion() { None } else {
                match i % 5 {
                    0 => None,
                    1 => Some(String::new()),
                    _ => Some(extras[(i / 5 + 3) % extras.len()].clone()),
                }
            };
            let fb = footer.clone().unwrap_or_default();
            let ab = assertion.clone().unwrap_or_default();
            let seed_len = if pr.v == 2 { 24 } else { 32 };
            let env = Env { km: &km, seed: &seed32[..seed_len], msg: msg.as_bytes(), footer: fb.as_bytes(), assertion: ab.as_bytes() };
            let desc = json!({"pr": prn, "key": hex::encode(km.sym), "nonce_seed": hex::encode(&seed32[..seed_len]), "message": if msg.len() > 300 { format!("{}... ({} bytes)", &msg[..msg.char_indices().nth(100).map(|x| x.0).unwrap_or(0)], msg.len()) } else { msg.clone() },
                              "message_len": msg.len(), "footer": footer, "assertion": assertion});
            out.distinct += 1;
            let lib = core_mint(pr, &km, &seed32, &msg, footer.as_deref(), assertion.as_deref());
            let lib_tok = match lib {
                Out::Ok(t) => t,
                o => {
                    viol(&mut out, format!("library failed to produce a token: {}:{}", o.class(), o.detail()), json!({"kind": "c08", "case": desc}));
                    continue;
                }
            };
            out.evaluations += 1;
            // footer segment iff non-empty
            let nseg = lib_tok.split('.').count();
            if (nseg == 4) != !fb.is_empty() {
                viol(&mut out, format!("footer segment presence is wrong: {} segments for footer {:?}", nseg, footer), json!({"kind": "c08", "case": desc, "library_token": lib_tok}));
            }
            let spec_tok = match token_of(e, &env) {
                Ok(t) => t,
                Err(err) => {
                    viol(&mut out, format!("evaluator error: {}", err), json!({"kind": "c08", "case": desc}));
                    continue;
                }
            };
            if !pr.public {
                if lib_tok != spec_tok {
                    viol(&mut out, "library token differs from the specification's token".into(),
                         json!({"kind": "c08", "case": desc, "library_token": lib_tok, "specification_token": spec_tok}));
                }
                // the library decrypts the specification's token
                let dec = core_present(pr, &spec_tok, &km, footer.as_deref(), assertion.as_deref());
                out.evaluations += 1;
                if dec != Out::Ok(msg.clone()) {
                    viol(&mut out, format!("library does not decrypt the specification's token: {}:{}", dec.class(), dec.detail()),
                         json!({"kind": "c08", "case": desc, "specification_token": spec_tok}));
                }
                if pr.v <= 2 && i % 3 == 0 {
                    // a token with an arbitrary wire nonce (the specification defines it, the library never builds it)
                    let e2 = entry(terms, &prn, "rawnonce");
                    if let Ok(raw_tok) = token_of(e2, &env) {
                        let dec = core_present(pr, &raw_tok, &km, footer.as_deref(), assertion.as_deref());
                        out.evaluations += 1;
                        if dec != Out::Ok(msg.clone()) {
                            viol(&mut out, format!("library does not decrypt a specification token with an arbitrary wire nonce: {}:{}", dec.class(), dec.detail()),
                                 json!({"kind": "c08", "case": desc, "specification_token": raw_tok}));
                        }
                    }
                }
            } else {
                // library-signed token verifies under the evaluator
                let parts = Parts::parse(&lib_tok);
                let dec = parts.as_ref().and_then(|p| unb64(&p.payload));
                let (alg, input) = signing_input(e, &env).unwrap_or_default();
                let siglen = match alg.as_str() { "ed25519" => 64, "ecdsa-p384" => 96, _ => 256 };
                let pk: Vec<u8> = match alg.as_str() { "ed25519" => km.ed_pk.to_vec(), "ecdsa-p384" => km.p384_pk.to_vec(), _ => km.rsa_pk.clone() };
                let verify = |data: &[u8], sig: &[u8]| match alg.as_str() {
                    "ed25519" => ed25519_verify(&pk, data, sig),
                    "ecdsa-p384" => p384_verify(&pk, data, sig),
                    _ => rsa_pss_verify(&pk, data, sig),
                };
                match dec {
                    Some(d) if d.len() >= siglen => {
                        let (m, sig) = d.split_at(d.len() - siglen);
                        out.evaluations += 1;
                        if m != msg.as_bytes() {
                            viol(&mut out, "library token does not carry the message in clear in front of the signature".into(), json!({"kind": "c08", "case": desc, "library_token": lib_tok}));
                        } else if !verify(&input, sig) {
                            viol(&mut out, "library-signed token does not verify under the specification's signing input".into(),
                                 json!({"kind": "c08", "case": desc, "library_token": lib_tok, "signing_input_hex": hex::encode(&input[..input.len().min(400)])}));
                        }
                    }
                    _ => viol(&mut out, "library token payload is malformed".into(), json!({"kind": "c08", "case": desc, "library_token": lib_tok})),
                }
                // specification-signed token verifies under the library
                let ver = core_present(pr, &spec_tok, &km, footer.as_deref(), assertion.as_deref());
                out.evaluations += 1;
                if ver != Out::Ok(msg.clone()) {
                    viol(&mut out, format!("library rejects a token signed by the specification's algorithm: {}:{}", ver.class(), ver.detail()),
                         json!({"kind": "c08", "case": desc, "specification_token": spec_tok}));
                }
                if alg == "ecdsa-p384" && i % 4 == 0 {
                    // the same signature with s negated (high-s / low-s form): accepted or rejected, never different content
                    if let Some(p) = Parts::parse(&spec_tok) {
                        if let Some(d) = unb64(&p.payload) {
                            let n = d.len();
                            let mut m2 = d[..n - 48].to_vec();
                            m2.extend(p384_negate(&d[n - 48..]));
                            let t2 = p.with_payload_bytes(&m2);
                            let o = core_present(pr, &t2, &km, footer.as_deref(), assertion.as_deref());
                            out.evaluations += 1;
                            match o {
                                Out::Ok(ref s) if *s == msg => {}
                                Out::ErrPre(_) => {}
                                o => viol(&mut out, format!("s-negated signature: {}:{}", o.class(), o.detail()), json!({"kind": "c08", "case": desc, "token": t2})),
                            }
                        }
                    }
                }
            }
            if out.samples.len() < 4 && i % 211 == 3 {
                out.samples.push(json!({"case": desc, "library_token": if lib_tok.len() > 160 { format!("{}...", &lib_tok[..160]) } else { lib_tok.clone() },
                                        "identical_to_specification": !pr.public && lib_tok == spec_tok}));
            }
            let _ = r.gen::<u8>();
        }
    }
    out
}
