//! C18: replay of the claim-constructor cases printed by MC_Claims.

use crate::api::*;
use crate::conc;
use crate::parser_run::render;
use rand::Rng;
use rusty_paseto::prelude::*;
use serde::Serialize;
use serde_json::{json, Value};
use std::panic::{catch_unwind, AssertUnwindSafe};
use time::{Duration, OffsetDateTime};

#[derive(Serialize, Clone)]
struct Sample {
    a: u8,
    b: String,
}

pub struct KOut {
    pub evaluations: usize,
    pub distinct: usize,
    pub nviol: usize,
    pub violations: Vec<Value>,
    pub samples: Vec<Value>,
}

fn res_of<T>(r: Result<CustomClaim<T>, PasetoClaimError>, key: &str) -> String
where
    CustomClaim<T>: PasetoClaim,
{
    match r {
        Ok(c) => {
            if c.get_key() == key {
                "ok".into()
            } else {
                format!("ok-but-key-{}", c.get_key())
            }
        }
        Err(PasetoClaimError::Reserved(k)) => {
            if k == key {
                "reserved".into()
            } else {
                format!("reserved-names-{}", k)
            }
        }
        Err(e) => format!("error-{:?}", e),
    }
}

/// every constructor form x several value types for one key
fn try_key(key: &str) -> Vec<(String, String)> {
    let mut v = vec![];
    let mut run = |name: &str, f: &dyn Fn() -> String| {
        let r = catch_unwind(AssertUnwindSafe(f)).unwrap_or_else(|_| "panic".to_string());
        v.push((name.to_string(), r));
    };
    run("&str", &|| res_of(CustomClaim::try_from(key), key));
    run("(&str,&str)", &|| res_of(CustomClaim::try_from((key, "value")), key));
    run("(&str,i64)", &|| res_of(CustomClaim::try_from((key, 42i64)), key));
    run("(&str,bool)", &|| res_of(CustomClaim::try_from((key, true)), key));
    run("(&str,Option)", &|| res_of(CustomClaim::try_from((key, Some(7i32))), key));
    run("(&str,struct)", &|| res_of(CustomClaim::try_from((key, Sample { a: 1, b: "x".into() })), key));
    run("(&str,Value)", &|| res_of(CustomClaim::try_from((key, json!({"n": [1, 2]}))), key));
    run("(String,&str)", &|| res_of(CustomClaim::try_from((key.to_string(), "value")), key));
    run("(String,i64)", &|| res_of(CustomClaim::try_from((key.to_string(), 42i64)), key));
    run("(String,bool)", &|| res_of(CustomClaim::try_from((key.to_string(), false)), key));
    run("(String,Option)", &|| res_of(CustomClaim::try_from((key.to_string(), None::<i32>)), key));
    run("(String,struct)", &|| res_of(CustomClaim::try_from((key.to_string(), Sample { a: 2, b: "y".into() })), key));
    v
}

fn decorate(base: &str, deco: &str) -> String {
    let c: Vec<char> = base.chars().collect();
    match deco {
        "upper-first" => format!("{}{}", c[0].to_uppercase(), c[1..].iter().collect::<String>()),
        "upper-all" => base.to_uppercase(),
        "upper-last" => format!("{}{}", c[..c.len() - 1].iter().collect::<String>(), c[c.len() - 1].to_uppercase()),
        "lead-space" => format!(" {}", base),
        "trail-space" => format!("{} ", base),
        "trail-tab" => format!("{}\t", base),
        "trail-nul" => format!("{}\0", base),
        "trail-newline" => format!("{}\n", base),
        "fullwidth" => {
            let fw = char::from_u32(0xFF41 + (c[0] as u32 - 'a' as u32)).unwrap_or('ａ');
            format!("{}{}", fw, c[1..].iter().collect::<String>())
        }
        "prefix-x" => format!("x{}", base),
        "suffix-s" => format!("{}s", base),
        _ => format!("{}.", base),
    }
}

fn time_ctor(which: usize, s: &str, owned: bool) -> Result<Value, String> {
    // returns the serialised claim {key: value}
    let r = catch_unwind(AssertUnwindSafe(|| -> Result<Value, String> {
        match (which, owned) {
            (0, false) => ExpirationClaim::try_from(s).map(|c| serde_json::to_value(&c).unwrap()).map_err(|e| format!("{:?}", e)),
            (0, true) => ExpirationClaim::try_from(s.to_string()).map(|c| serde_json::to_value(&c).unwrap()).map_err(|e| format!("{:?}", e)),
            (1, false) => NotBeforeClaim::try_from(s).map(|c| serde_json::to_value(&c).unwrap()).map_err(|e| format!("{:?}", e)),
            (1, true) => NotBeforeClaim::try_from(s.to_string()).map(|c| serde_json::to_value(&c).unwrap()).map_err(|e| format!("{:?}", e)),
            (2, false) => IssuedAtClaim::try_from(s).map(|c| serde_json::to_value(&c).unwrap()).map_err(|e| format!("{:?}", e)),
            (_, _) => IssuedAtClaim::try_from(s.to_string()).map(|c| serde_json::to_value(&c).unwrap()).map_err(|e| format!("{:?}", e)),
        }
    }));
    match r {
        Ok(x) => x,
        Err(_) => Err("panic".into()),
    }
}

pub fn run(keys: &serde_json::Map<String, Value>, deco: &[Value], time_classes: &[Value], typed: &[Value], seed: u64, thorough: bool) -> KOut {
    let mut out = KOut { evaluations: 0, distinct: 0, nviol: 0, violations: vec![], samples: vec![] };
    let mut r = conc::rng(seed, "claims");
    let mut check_key = |out: &mut KOut, key: &str, exp: &str, origin: &str| {
        out.distinct += 1;
        for (form, obs) in try_key(key) {
            out.evaluations += 1;
            if obs != exp {
                out.nviol += 1;
                if out.violations.len() < 30 {
                    out.violations.push(json!({"props": ["C18"], "what": format!("CustomClaim::try_from {} with key {:?}: observed {}, specification says {}", form, key, obs, exp),
                        "replay": {"kind": "custom-claim", "key": key, "form": form, "predicted": exp, "observed": obs, "origin": origin}}));
                }
            }
        }
    };
    for (k, exp) in keys {
        check_key(&mut out, k, exp.as_str().unwrap_or("ok"), "enumerated");
    }
    for d in deco {
        let key = decorate(d["base"].as_str().unwrap(), d["deco"].as_str().unwrap());
        check_key(&mut out, &key, d["exp"].as_str().unwrap(), d["deco"].as_str().unwrap());
    }
    // random Unicode keys (not one of the seven names): always permitted
    let reserved = ["iss", "sub", "aud", "exp", "nbf", "iat", "jti"];
    for i in 0..(if thorough { 20000 } else { 2000 }) {
        let l = r.gen_range(0..12);
        let c = r.gen_range(0..6);
        let k = conc::message(&mut r, l, c);
        if reserved.contains(&k.as_str()) {
            continue;
        }
        check_key(&mut out, &k, "ok", &format!("random-{}", i));
    }
    out.samples.push(json!({"key": "exp", "predicted": "reserved"}));
    out.samples.push(json!({"key": decorate("exp", "upper-first"), "predicted": "ok"}));

    // time-claim constructors
    let exp_of = |class: &str| time_classes.iter().find(|t| t["class"] == class).map(|t| t["exp"].as_str().unwrap_or("").to_string()).unwrap_or_default();
    let now = OffsetDateTime::now_utc();
    let mut upper: Vec<String> = vec![
        "2016-12-31T23:59:60Z".into(), "0000-01-01T00:00:00Z".into(), "9999-12-31T23:59:59Z".into(), "9999-12-31T23:59:59+23:59".into(),
        "2024-02-29T12:00:00.000000001-23:59".into(), "1971-01-01T00:00:00+00:00".into(),
    ];
    // calendar corners: leap days of century years divisible by 400, month ends, midnight and end of day,
    // whole seconds with Z (the shortest form), every month's last day
    for y in [1600, 2000, 2400, 1972, 2096] {
        upper.push(format!("{:04}-02-29T00:00:00Z", y));
        upper.push(format!("{:04}-02-29T23:59:59+00:00", y));
    }
    for (m, d) in [(1, 31), (2, 28), (3, 31), (4, 30), (5, 31), (6, 30), (7, 31), (8, 31), (9, 30), (10, 31), (11, 30), (12, 31)] {
        upper.push(format!("2023-{:02}-{:02}T12:34:56Z", m, d));
        upper.push(format!("2023-{:02}-01T00:00:00.5-00:30", m));
    }
    let instants = [now, now - Duration::days(20000), now + Duration::days(2_000_000), now + Duration::seconds(1)];
    let stride = if thorough { 1 } else { 37 };
    for off in (-1439i32..=1439).step_by(stride) {
        for digits in [0usize, 1, 3, 6, 9] {
            let inst = instants[((off + 1439) as usize + digits) % 4];
            upper.push(render(inst, off, digits, 'T', off % 2 == 0));
        }
    }
    for s in &upper {
        out.distinct += 1;
        for which in 0..3 {
            for owned in [false, true] {
                out.evaluations += 1;
                let key = ["exp", "nbf", "iat"][which];
                match time_ctor(which, s, owned) {
                    Ok(v) => {
                        if v != json!({ key: s }) {
                            out.nviol += 1;
                            out.violations.push(json!({"props": ["C18"], "what": format!("time claim does not keep the value verbatim: {} -> {}", s, v),
                                "replay": {"kind": "time-claim", "ctor": key, "input": s, "predicted": exp_of("rfc3339upper"), "observed": v}}));
                        }
                    }
                    Err(e) => {
                        out.nviol += 1;
                        if out.violations.len() < 30 {
                            out.violations.push(json!({"props": ["C18"], "what": format!("{} constructor rejects the RFC 3339 date-time {:?}: {}", key, s, e),
                                "replay": {"kind": "time-claim", "ctor": key, "input": s, "owned": owned, "predicted": exp_of("rfc3339upper"), "observed": e}}));
                        }
                    }
                }
            }
        }
    }
    // verbatim through a built token
    let km = conc::random_keymat(&mut r, 0);
    for (i, s) in upper.iter().enumerate().filter(|(i, _)| i % 7 == 0) {
        let key = ["exp", "nbf", "iat"][i % 3];
        let ops = vec![BOp::SetClaim { key: key.into(), value: json!(s), via: Via::Typed }, BOp::Build];
        let pr = Proto::new(4, if i % 2 == 0 { "local" } else { "public" });
        out.evaluations += 1;
        if let Some(Out::Ok(tok)) = run_builder(pr, Layer::Generic, &ops, &km).into_iter().next() {
            let (o, _) = present(pr, Layer::Generic, &tok, &km, None, None);
            let got = o.ok().map(|v| v[key].clone());
            if got != Some(json!(s)) {
                out.nviol += 1;
                out.violations.push(json!({"props": ["C18"], "what": format!("time value {:?} read back as {:?}", s, got),
                    "replay": {"kind": "time-claim-roundtrip", "ctor": key, "input": s}}));
            }
        }
    }
    // strings that do not start with an ISO 8601 date
    let mut bad: Vec<String> = vec!["".into(), "hello".into(), " 2999-01-01T00:00:00Z".into(), "T10:00:00Z".into(), "10:00:00Z".into(),
        "99-01-01T00:00:00Z".into(), "abcd-01-01T00:00:00Z".into(), "tomorrow".into(), "\t2999-01-01T00:00:00Z".into(), "Z".into(),
        "２９９９-01-01T00:00:00Z".into(), "x2999-01-01T00:00:00Z".into(), "null".into(), "\0".into(), "٢٠٢٠-01-01T00:00:00Z".into()];
    for _ in 0..(if thorough { 5000 } else { 500 }) {
        let l = r.gen_range(0..30);
        let c = r.gen_range(0..6);
        let s = conc::message(&mut r, l, c);
        let first4: Vec<char> = s.chars().take(4).collect();
        let starts_like_date = first4.len() == 4 && first4.iter().all(|c| c.is_ascii_digit());
        let signed = s.starts_with('+') || s.starts_with('-');
        if !starts_like_date && !signed {
            bad.push(s);
        }
    }
    for s in &bad {
        out.distinct += 1;
        for which in 0..3 {
            for owned in [false, true] {
                out.evaluations += 1;
                let ctor_name = ["exp", "nbf", "iat"][which];
                if let Ok(v) = time_ctor(which, s, owned) {
                    out.nviol += 1;
                    if out.violations.len() < 30 {
                        out.violations.push(json!({"props": ["C18"], "what": format!("time constructor accepts {:?} which does not start with an ISO 8601 date", s),
                            "replay": {"kind": "time-claim", "ctor": ctor_name, "input": s, "predicted": exp_of("noisodate"), "observed": v}}));
                    }
                } else if time_ctor(which, s, owned) == Err("panic".into()) {
                    out.nviol += 1;
                    out.violations.push(json!({"props": ["C18", "C09"], "what": format!("time constructor panics on {:?}", s), "replay": {"kind": "time-claim", "input": s}}));
                }
            }
        }
    }
    // typed constructors appear under their registered keys
    for t in typed {
        let ctor = t["ctor"].as_str().unwrap();
        let key = t["key"].as_str().unwrap();
        // a constructor that refuses this plain RFC 3339 date-time is itself a violation (not a harness failure)
        let tv = |r: Result<Value, String>| -> Value { r.unwrap_or_else(|e| json!({"constructor-error": e})) };
        let v: Value = match ctor {
            "IssuerClaim" => serde_json::to_value(IssuerClaim::from("x")).unwrap(),
            "SubjectClaim" => serde_json::to_value(SubjectClaim::from("x")).unwrap(),
            "AudienceClaim" => serde_json::to_value(AudienceClaim::from("x")).unwrap(),
            "TokenIdentifierClaim" => serde_json::to_value(TokenIdentifierClaim::from("x")).unwrap(),
            "ExpirationClaim" => tv(ExpirationClaim::try_from("2030-01-01T00:00:00Z").map(|c| serde_json::to_value(c).unwrap()).map_err(|e| format!("{:?}", e))),
            "NotBeforeClaim" => tv(NotBeforeClaim::try_from("2030-01-01T00:00:00Z").map(|c| serde_json::to_value(c).unwrap()).map_err(|e| format!("{:?}", e))),
            _ => tv(IssuedAtClaim::try_from("2030-01-01T00:00:00Z").map(|c| serde_json::to_value(c).unwrap()).map_err(|e| format!("{:?}", e))),
        };
        out.evaluations += 1;
        out.distinct += 1;
        let ok = v.as_object().map(|m| m.len() == 1 && m.contains_key(key)).unwrap_or(false);
        if !ok {
            out.nviol += 1;
            out.violations.push(json!({"props": ["C18", "C14"], "what": format!("{} does not serialise under its registered key {}: {}", ctor, key, v),
                "replay": {"kind": "typed-claim", "ctor": ctor, "predicted_key": key, "observed": v}}));
        }
    }
    out.samples.push(json!({"time_string": upper[10], "predicted": "ok-verbatim"}));
    out.samples.push(json!({"time_string": bad[3], "predicted": "err"}));
    out
}
