//! Concretisation: pools of concrete keys, messages, footers and assertions that
//! instantiate the abstract values of the specification (DESIGN.md §3.1).

use crate::api::KeyMat;
use rand::rngs::StdRng;
use rand::{Rng, RngCore, SeedableRng};

pub fn rng(seed: u64, stream: &str) -> StdRng {
    let mut s = [0u8; 32];
    s[..8].copy_from_slice(&seed.to_le_bytes());
    for (i, b) in stream.bytes().enumerate() {
        s[8 + (i % 24)] ^= b.wrapping_add(i as u8);
    }
    StdRng::from_seed(s)
}

const RSA: [(&[u8], &[u8]); 4] = [
    (include_bytes!("../../fixtures/rsa/rsa0.pk8"), include_bytes!("../../fixtures/rsa/rsa0.pub.der")),
    (include_bytes!("../../fixtures/rsa/rsa1.pk8"), include_bytes!("../../fixtures/rsa/rsa1.pub.der")),
    (include_bytes!("../../fixtures/rsa/rsa2.pk8"), include_bytes!("../../fixtures/rsa/rsa2.pub.der")),
    (include_bytes!("../../fixtures/rsa/rsa3.pk8"), include_bytes!("../../fixtures/rsa/rsa3.pub.der")),
];

pub fn rsa_pairs() -> usize {
    RSA.len()
}

fn ed_pair(seed: &[u8; 32]) -> ([u8; 64], [u8; 32]) {
    let sk = ed25519_dalek::SigningKey::from_bytes(seed);
    (sk.to_keypair_bytes(), sk.verifying_key().to_bytes())
}

fn p384_pair(seed: &[u8; 48]) -> Option<([u8; 48], [u8; 49])> {
    let sk = p384::ecdsa::SigningKey::from_bytes(seed.into()).ok()?;
    let pk = p384::ecdsa::VerifyingKey::from(&sk).to_encoded_point(true);
    let mut out = [0u8; 49];
    out.copy_from_slice(pk.as_bytes());
    Some((*seed, out))
}

/// Key material derived from a symmetric key value: the asymmetric seeds are the
/// symmetric bytes themselves (Ed25519) or an expansion of them (P-384), so that a
/// one-bit neighbour of `sym` is also a different valid asymmetric pair.
pub fn keymat_from(sym: [u8; 32], rsa_idx: usize) -> KeyMat {
    let (ed_sk, ed_pk) = ed_pair(&sym);
    let mut p_seed = [0u8; 48];
    p_seed[..32].copy_from_slice(&sym);
    for i in 32..48 {
        p_seed[i] = sym[i - 32] ^ 0x5a;
    }
    // keep the scalar below the group order and non-zero
    p_seed[0] &= 0x7f;
    if p_seed.iter().all(|b| *b == 0) {
        p_seed[47] = 1;
    }
    let (p384_sk, p384_pk) = p384_pair(&p_seed).expect("valid p384 scalar");
    let (rsa_sk, rsa_pk) = RSA[rsa_idx % RSA.len()];
    KeyMat { sym, ed_sk, ed_pk, p384_sk, p384_pk, rsa_sk: rsa_sk.to_vec(), rsa_pk: rsa_pk.to_vec() }
}

pub fn random_keymat(r: &mut StdRng, rsa_idx: usize) -> KeyMat {
    let mut sym = [0u8; 32];
    r.fill_bytes(&mut sym);
    keymat_from(sym, rsa_idx)
}

pub fn random_bytes32(r: &mut StdRng) -> [u8; 32] {
    let mut b = [0u8; 32];
    r.fill_bytes(&mut b);
    b
}

/// UTF-8 message of exactly `len` bytes drawn from a content class
pub fn message(r: &mut StdRng, len: usize, class: usize) -> String {
    let mut s = String::with_capacity(len + 4);
    let pool: &[&str] = match class % 6 {
        // text that looks like protocol syntax: headers, dots, base64url, JSON with a repeated member, a timestamp
        5 => &["v4.local.", "v2.public.", ".", "{\"a\":1,\"a\":2}", "2019-01-01T00:00:00+00:00", "AAAA", "-_", "\"exp\":", "=", "a"],
        0 => &["a", "b", "{", "}", "\"", ":", "0", " ", "x", "y", "\\", "[", "]", ","],
        1 => &["é", "ß", "a", "ø", "1"],
        2 => &["€", "漢", "a", "字", "é", "z"],
        3 => &["😀", "𝄞", "a", "é", "€", "q"],
        _ => &["\0", ".", "a", "=", "-", "_", "\n", "\u{7f}"],
    };
    while s.len() < len {
        let c = pool[r.gen_range(0..pool.len())];
        if s.len() + c.len() <= len {
            s.push_str(c);
        } else {
            // fill the remainder with single-byte characters
            s.push('a');
        }
    }
    s
}

/// JSON-object message with roughly `len` bytes of string content
pub fn json_message(r: &mut StdRng, len: usize, class: usize) -> String {
    let body = message(r, len, class);
    let n = r.gen_range(0..1000);
    serde_json::json!({ "data": body, "n": n }).to_string()
}

/// Pairs of distinct, non-empty strings instantiating (f1, f2) / (a1, a2); the classes
/// follow the quantifier text of C05/C06.
pub fn string_pairs(r: &mut StdRng, n_random: usize) -> Vec<(String, String)> {
    let mut v: Vec<(String, String)> = vec![
        ("kid-1".into(), "kid-12".into()),          // extension
        ("kid-12".into(), "kid-1".into()),          // prefix
        ("Footer".into(), "footer".into()),         // case change
        ("abc".into(), "abd".into()),               // last base64 character differs
        ("ab".into(), "ac".into()),                 // 2-byte, last char (with trailing bits) differs
        ("a".into(), "b".into()),                   // 1 byte
        ("a".into(), "ab".into()),                  // 1 byte vs 2 bytes
        ("{\"kid\":\"x\"}".into(), "{\"kid\":\"y\"}".into()),
        ("é".into(), "e".into()),                   // non-ASCII vs ASCII
        ("ключ".into(), "ключи".into()),
        (" ".into(), "  ".into()),
        ("\0".into(), "\0\0".into()),
        ("a.b".into(), "a.c".into()),               // '.' inside a footer
        ("x".repeat(1024), "x".repeat(1023) + "y"), // 1 KiB
        ("tenant-42".into(), "tenant-42\n".into()),   // trailing line ending
        ("a ".into(), "a".into()),                    // trailing blank
        ("\tx".into(), "x".into()),                   // leading tab
        ("x\u{a0}".into(), "x".into()),               // trailing no-break space
        ("y".repeat(255), "y".repeat(256)),         // one-byte length boundary
        ("z".repeat(65535), "z".repeat(65536)),     // two-byte length boundary
        // the two base64url symbols that differ from standard base64: "ab?" -> YWI_ , "ab>" -> YWI-
        ("ab?".into(), "ab>".into()),
        ("https://keys.example.com/v4/k?kid=7".into(), "~~~>>>???".into()),
        ("k\u{bf}".into(), "o\u{e9}~".into()),
        // JSON footers: nested, deep, braces inside strings, not quite JSON
        ("{\"kid\":\"k\",\"rotation\":{\"previous\":[\"a\",\"b\"]}}".into(), "{\"kid\":\"k\",\"rotation\":{\"previous\":[\"a\",\"c\"]}}".into()),
        ("{\"kid\":\"{{tenant}}-{{region}}\"}".into(), "{[[".into()),
        ("[[[[[[[[[[[[[[[[[[[[[[[[[[[[[[[[[[[[[[[[1]]]]]]]]]]]]]]]]]]]]]]]]]]]]]]]]]]]]]]]]".into(), "{\"a\":{\"a\":{\"a\":{\"a\":{\"a\":{\"a\":1}}}}}}".into()),
    ];
    for _ in 0..n_random {
        let la = r.gen_range(1..40);
        let ca = r.gen_range(0..6);
        let a = message(r, la, ca);
        let mut b;
        loop {
            let lb = r.gen_range(1..40);
            let cb = r.gen_range(0..6);
            b = message(r, lb, cb);
            if b != a {
                break;
            }
        }
        v.push((a, b));
    }
    v
}

/// Message lengths named by the quantifier of C01
pub fn boundary_lengths() -> Vec<usize> {
    vec![0, 1, 2, 15, 16, 17, 31, 32, 33, 47, 48, 49, 63, 64, 65, 127, 128, 129, 255, 256, 257, 1023, 1024, 4095, 4096, 4097]
}
