//! Spec -> implementation replay for the token life-cycle model (spec/Core.tla).
//!
//! Input: one JSON replay case per line, printed by TLC for every reachable state of
//! MC_Core: how the token was minted, which abstract edits were applied, and for a set
//! of presentations the outcome class the specification allows.  Every case is
//! instantiated with many concrete values and the observed outcome of the real library
//! is compared with the prediction after every presentation.

use crate::api::*;
use crate::conc;
use crate::edits::*;
use rand::rngs::StdRng;
use rand::Rng;
use serde::Deserialize;
use serde_json::{json, Value};
use std::collections::HashMap;

#[derive(Deserialize, Clone, Debug)]
pub struct MintRec {
    pub pr: String,
    pub k: String,
    pub s: String,
    pub m: String,
    pub f: String,
    pub a: String,
}

#[derive(Deserialize, Clone, Debug)]
pub struct LayoutRec {
    pub name: String,
    pub len: i64,
}

#[derive(Deserialize, Clone, Debug)]
pub struct EditRec {
    pub k: String,
    pub a: String,
    pub b: String,
    pub pr: String,
}

#[derive(Deserialize, Clone, Debug)]
pub struct PresRec {
    pub pr: String,
    pub k: String,
    pub f: String,
    pub a: String,
    pub exp: String,
    #[serde(default)]
    pub why: String,
}

#[derive(Deserialize, Clone, Debug)]
pub struct CaseRec {
    pub mint: MintRec,
    pub layout: Vec<LayoutRec>,
    pub edits: Vec<EditRec>,
    pub unaltered: bool,
    pub tolerated: bool,
    pub pres: Vec<PresRec>,
}

pub fn parse_proto(s: &str) -> Option<Proto> {
    let (v, p) = s.split_once('.')?;
    let v: u8 = v.trim_start_matches('v').parse().ok()?;
    if !(1..=4).contains(&v) {
        return None;
    }
    Some(Proto::new(v, p))
}

/// One concrete instantiation of the abstract values of a case
pub struct Instance {
    pub keys: HashMap<String, KeyMat>,
    pub seeds: HashMap<String, [u8; 32]>,
    pub msgs: HashMap<String, String>,
    pub footers: HashMap<String, Option<String>>,
    pub asserts: HashMap<String, Option<String>>,
    pub desc: Value,
}

impl Instance {
    pub fn footer(&self, name: &str) -> Option<&str> {
        self.footers.get(name).and_then(|o| o.as_deref())
    }
    pub fn assertion(&self, name: &str) -> Option<&str> {
        self.asserts.get(name).and_then(|o| o.as_deref())
    }
}

/// how the second key of an instance relates to the first (C04)
#[derive(Clone, Copy, Debug)]
pub enum K2Mode {
    Random,
    BitNeighbour(usize),
    /// public protocols: the signer's PUBLIC key bytes with one bit flipped (Ed25519 32 bytes, P-384 49 bytes,
    /// RSA PKCS#1 DER 270 bytes)
    PubBitNeighbour(usize),
    /// v1.public: the signer's RSA public key inside bytes that are not a key encoding (junk prefix of 1 / 24 /
    /// 32 bytes that is not a SubjectPublicKeyInfo header, junk suffix, truncation)
    PubJunk(usize),
    Zero,
    Ones,
}

pub struct InstSpec {
    pub msg_len: usize,
    pub msg_class: usize,
    pub json_msg: bool,
    pub pair_idx: usize,
    pub k2: K2Mode,
    pub k1_special: u8, // 0 random, 1 all-zero, 2 all-ones
    pub seed_special: u8,
}

pub fn make_instance(spec: &InstSpec, pairs: &[(String, String)], r: &mut StdRng) -> Instance {
    let mut sym1 = [0u8; 32];
    match spec.k1_special {
        1 => {}
        2 => sym1 = [0xff; 32],
        _ => r.fill(&mut sym1),
    }
    let mut sym2 = sym1;
    match spec.k2 {
        K2Mode::Random => r.fill(&mut sym2),
        K2Mode::BitNeighbour(bit) => sym2[(bit / 8) % 32] ^= 1 << (bit % 8),
        K2Mode::PubBitNeighbour(_) | K2Mode::PubJunk(_) => r.fill(&mut sym2),
        K2Mode::Zero => sym2 = [0u8; 32],
        K2Mode::Ones => sym2 = [0xff; 32],
    }
    if sym2 == sym1 {
        sym2[0] ^= 0x80;
    }
    let rsa1 = r.gen_range(0..conc::rsa_pairs());
    let rsa2 = (rsa1 + 1 + r.gen_range(0..conc::rsa_pairs() - 1)) % conc::rsa_pairs();
    let mut keys = HashMap::new();
    keys.insert("k1".to_string(), conc::keymat_from(sym1, rsa1));
    keys.insert("k2".to_string(), conc::keymat_from(sym2, rsa2));
    if let K2Mode::PubJunk(variant) = spec.k2 {
        let mut km = conc::keymat_from(sym2, rsa1);
        let pk = conc::keymat_from(sym1, rsa1).rsa_pk;
        let fill: u8 = [0x00, 0xff, 0x30, 0x5a][variant % 4];
        km.rsa_pk = match (variant / 4) % 6 {
            0 => [vec![fill; 24], pk].concat(),
            1 => [vec![fill; 1], pk].concat(),
            2 => [vec![fill; 32], pk].concat(),
            3 => [pk, vec![fill; 24]].concat(),
            4 => pk[..pk.len() - 1].to_vec(),
            _ => {
                let mut x: Vec<u8> = (0..24).map(|_| r.gen()).collect();
                x[0] |= 0x80; // never the 0x30 that starts a DER SEQUENCE
                [x, pk].concat()
            }
        };
        keys.insert("k2".to_string(), km);
    }
    if let K2Mode::PubBitNeighbour(bit) = spec.k2 {
        let mut km = conc::keymat_from(sym1, rsa1);
        km.sym = sym2;
        // PKCS#1 DER is canonical: no single-bit change of it encodes the same (n, e)
        let n_rsa = km.rsa_pk.len();
        km.rsa_pk[(bit / 8) % n_rsa] ^= 1 << (bit % 8);
        km.ed_pk[(bit / 8) % 32] ^= 1 << (bit % 8);
        km.p384_pk[(bit / 8) % 49] ^= 1 << (bit % 8);
        keys.insert("k2".to_string(), km);
    }
    let mut seeds = HashMap::new();
    let mut s1 = [0u8; 32];
    match spec.seed_special {
        1 => {}
        2 => s1 = [0xff; 32],
        _ => r.fill(&mut s1),
    }
    let mut s2 = [0u8; 32];
    r.fill(&mut s2);
    seeds.insert("s1".to_string(), s1);
    seeds.insert("s2".to_string(), s2);
    let mut msgs = HashMap::new();
    let (m1, m2) = if spec.json_msg {
        (
            conc::json_message(r, spec.msg_len, spec.msg_class),
            conc::json_message(r, spec.msg_len, spec.msg_class + 1),
        )
    } else {
        (conc::message(r, spec.msg_len, spec.msg_class), conc::message(r, spec.msg_len.max(1), spec.msg_class + 1))
    };
    let m2 = if m2 == m1 { format!("{}x", m2) } else { m2 };
    msgs.insert("m1".to_string(), m1);
    msgs.insert("m2".to_string(), m2);
    let (f1, f2) = pairs[spec.pair_idx % pairs.len()].clone();
    let (a1, a2) = pairs[(spec.pair_idx * 7 + 3) % pairs.len()].clone();
    let mut footers = HashMap::new();
    footers.insert("none".to_string(), None);
    footers.insert("empty".to_string(), Some(String::new()));
    footers.insert("f1".to_string(), Some(f1.clone()));
    footers.insert("f2".to_string(), Some(f2.clone()));
    let mut asserts = HashMap::new();
    asserts.insert("none".to_string(), None);
    asserts.insert("empty".to_string(), Some(String::new()));
    asserts.insert("a1".to_string(), Some(a1.clone()));
    asserts.insert("a2".to_string(), Some(a2.clone()));
    let desc = json!({
        "k1": hex::encode(sym1), "k2": hex::encode(sym2), "rsa": [rsa1, rsa2],
        "s1": hex::encode(s1), "s2": hex::encode(s2),
        "m1": msgs["m1"], "m2": msgs["m2"], "f1": f1, "f2": f2, "a1": a1, "a2": a2,
    });
    Instance { keys, seeds, msgs, footers, asserts, desc }
}

pub fn mint_from(inst: &Instance, m: &MintRec) -> Out<String> {
    let pr = parse_proto(&m.pr).expect("protocol");
    core_mint(
        pr,
        &inst.keys[&m.k],
        &inst.seeds[&m.s],
        &inst.msgs[&m.m],
        inst.footer(&m.f),
        if pr.has_assertion() { inst.assertion(&m.a) } else { None },
    )
}

/// the other authentic token used by splices: the case's origin with one parameter changed
pub fn other_mint(m: &MintRec, variant: &str) -> MintRec {
    let mut o = m.clone();
    match variant {
        "key" => o.k = "k2".into(),
        "msg" => o.m = "m2".into(),
        "seed" => o.s = "s2".into(),
        "footer" => o.f = if m.f == "f1" { "f2".into() } else { "f1".into() },
        "assertion" => o.a = if m.a == "a1" { "a2".into() } else { "a1".into() },
        _ => {}
    }
    o
}

#[derive(Clone, Debug)]
pub struct Violation {
    pub props: Vec<String>,
    pub what: String,
    pub replay: Value,
}

#[derive(Default)]
pub struct Stats {
    pub cases: usize,
    pub instances: usize,
    pub tokens: usize,
    pub presentations: usize,
    pub ok_seen: usize,
    pub pre_seen: usize,
    pub tol_ok: usize,
    pub tol_rej: usize,
    pub by_edit: HashMap<String, usize>,
    pub distinct: std::collections::HashSet<u64>,
    pub violations: Vec<Violation>,
    pub nviol: usize,
    pub primed: usize,
    pub repeated: usize,
    pub prime_failed: usize,
    pub samples: Vec<Value>,
    /// advisory: how often the PasetoError variant predicted by the step-by-step model was the one observed
    pub variant_total: usize,
    pub variant_agree: usize,
    pub variant_disagree: HashMap<String, usize>,
}

/// does the observed PasetoError variant correspond to the model's step name (advisory only)
fn variant_matches(why: &str, observed: &str) -> bool {
    match why {
        "IncorrectSize" | "Short" => observed == "IncorrectSize",
        "FooterInvalid" => observed == "FooterInvalid",
        "WrongHeader" => observed == "WrongHeader",
        "PayloadBase64Decode" => observed == "PayloadBase64Decode",
        "Auth" => ["Cipher", "ChaChaCipherError", "InvalidSignature", "RsaCipher", "Signature", "ECSDAError", "InvalidKey"].contains(&observed),
        _ => false,
    }
}

impl Stats {
    pub fn merge(&mut self, o: Stats) {
        self.cases += o.cases;
        self.instances += o.instances;
        self.tokens += o.tokens;
        self.presentations += o.presentations;
        self.ok_seen += o.ok_seen;
        self.pre_seen += o.pre_seen;
        self.tol_ok += o.tol_ok;
        self.tol_rej += o.tol_rej;
        for (k, v) in o.by_edit {
            *self.by_edit.entry(k).or_insert(0) += v;
        }
        self.distinct.extend(o.distinct);
        self.nviol += o.nviol;
        self.primed += o.primed;
        self.repeated += o.repeated;
        self.prime_failed += o.prime_failed;
        self.variant_total += o.variant_total;
        self.variant_agree += o.variant_agree;
        for (k, v) in o.variant_disagree {
            *self.variant_disagree.entry(k).or_insert(0) += v;
        }
        for v in o.violations {
            if self.violations.len() < 40 {
                self.violations.push(v);
            }
        }
        for v in o.samples {
            if self.samples.len() < 8 {
                self.samples.push(v);
            }
        }
    }
}

fn hash_str(s: &str) -> u64 {
    use std::hash::{Hash, Hasher};
    let mut h = std::collections::hash_map::DefaultHasher::new();
    s.hash(&mut h);
    h.finish()
}

/// which listed properties a (case, presentation) pair speaks about
pub fn props_of(case: &CaseRec, p: &PresRec) -> Vec<String> {
    let mut v = vec![];
    let public = case.mint.pr.ends_with("public");
    if case.unaltered {
        if p.exp == "ok" {
            v.push(if public { "C02" } else { "C01" }.to_string());
            // the accepting side of C05 / C06: the right footer / assertion opens the token - a token that
            // carries one (or a presentation that spells "none" differently) speaks for these properties too
            if case.mint.f != p.f || !["none", "empty"].contains(&case.mint.f.as_str()) {
                v.push("C05".into());
            }
            if case.mint.a != p.a || !["none", "empty"].contains(&case.mint.a.as_str()) {
                v.push("C06".into());
            }
        } else {
            if p.pr != case.mint.pr {
                v.push("C07".into());
            } else {
                if p.k != case.mint.k {
                    v.push("C04".into());
                }
                if fb(&p.f) != fb(&case.mint.f) {
                    v.push("C05".into());
                }
                if fb(&p.a) != fb(&case.mint.a) {
                    v.push("C06".into());
                }
            }
        }
    } else {
        v.push("C03".into());
        for e in &case.edits {
            // (segments appended after the footer segment, or a dot inserted, are edits of the footer part too)
            if e.k.starts_with("foot-") || e.k == "extra-seg" || e.k == "dot-insert" {
                v.push("C05".into());
            }
            if e.k == "relabel" {
                v.push("C07".into());
            }
        }
    }
    v.sort();
    v.dedup();
    v
}

fn fb(name: &str) -> &str {
    if name == "none" || name == "empty" {
        ""
    } else {
        name
    }
}

pub struct ReplayCfg {
    pub layers: Vec<Layer>,
    pub budget: Budget,
    /// cap on mutated tokens per (case, instance)
    pub max_tokens: usize,
    /// presentations that do not match the origin are run on this many mutated tokens only
    pub offdiag_tokens: usize,
    pub max_violations: usize,
}

fn check_outcome(exp: &str, out: &Out<Value>, calls: &[Call], msg: &str, layer: Layer) -> Result<(), String> {
    let msg_ok = |v: &Value| -> bool {
        match layer {
            Layer::Core => v.as_str() == Some(msg),
            _ => serde_json::from_str::<Value>(msg).map(|m| m == *v).unwrap_or(false),
        }
    };
    let probe_calls = calls.iter().filter(|c| c.key == "pv-probe").count();
    match (exp, out) {
        ("ok", Out::Ok(v)) => {
            if !msg_ok(v) {
                return Err(format!("accepted but returned different content: {}", v));
            }
            if layer != Layer::Core && probe_calls != 1 {
                return Err(format!("registered validator ran {} times on an accepted token", probe_calls));
            }
            Ok(())
        }
        ("ok", o) => Err(format!("expected Ok(message), observed {}:{}", o.class(), o.detail())),
        ("pre", Out::ErrPre(_)) => {
            if !calls.is_empty() {
                Err(format!("a claim validator ran {} time(s) on a rejected token", calls.len()))
            } else {
                Ok(())
            }
        }
        ("pre", Out::Ok(v)) => Err(format!(
            "expected rejection before plaintext is handled, observed Ok({})",
            if msg_ok(v) { "original message".to_string() } else { format!("DIFFERENT content {}", v) }
        )),
        ("pre", o) => Err(format!(
            "expected an authentication/format error, observed {}:{}",
            o.class(),
            o.detail()
        )),
        ("tol", Out::Ok(v)) => {
            if msg_ok(v) {
                Ok(())
            } else {
                Err(format!("tolerated re-encoding accepted with different content: {}", v))
            }
        }
        ("tol", Out::ErrPre(_)) => {
            if calls.is_empty() {
                Ok(())
            } else {
                Err("a claim validator ran on a rejected token".into())
            }
        }
        ("tol", o) => Err(format!("expected Ok(message) or a pre error, observed {}:{}", o.class(), o.detail())),
        (e, _) => Err(format!("unknown expectation {}", e)),
    }
}

/// Replays one case under one instance. `want` filters the presentations by property.
pub fn replay_case(
    case: &CaseRec,
    inst: &Instance,
    cfg: &ReplayCfg,
    want: &dyn Fn(&[String]) -> bool,
    r: &mut StdRng,
    st: &mut Stats,
) {
    let pr = match parse_proto(&case.mint.pr) {
        Some(p) => p,
        None => return,
    };
    let tok = match mint_from(inst, &case.mint) {
        Out::Ok(t) => t,
        o => {
            st.nviol += 1;
            st.violations.push(Violation {
                props: vec![if pr.public { "C02".into() } else { "C01".into() }],
                what: format!("minting failed: {}:{}", o.class(), o.detail()),
                replay: json!({"mint": format!("{:?}", case.mint), "instance": inst.desc}),
            });
            return;
        }
    };
    st.instances += 1;
    let layout: Vec<FieldSpec> = case.layout.iter().map(|l| FieldSpec { name: l.name.clone(), len: l.len }).collect();

    // authentic tokens of the splice variants (an edit result equal to one of them is not an alteration)
    let mut others: HashMap<String, String> = HashMap::new();
    for var in ["key", "msg", "seed", "footer", "assertion"] {
        if let Out::Ok(t) = mint_from(inst, &other_mint(&case.mint, var)) {
            others.insert(var.to_string(), t);
        }
    }
    let other_token = |v: &str| others.get(v).cloned();
    let footer_of = |n: &str| inst.footer(n).unwrap_or("").to_string();
    let ctx = EditCtx { layout: &layout, other_token: &other_token, footer_of: &footer_of, ecdsa: pr.v == 3 && pr.public };

    if std::env::var("PV_DEBUG").is_ok() {
        eprintln!("case {:?} edits {:?} toklen {}", case.mint.pr, case.edits.iter().map(|e| e.k.clone()).collect::<Vec<_>>(), tok.len());
    }
    // expand the abstract edits to concrete mutated tokens
    let mut toks: Vec<String> = vec![tok.clone()];
    for (i, e) in case.edits.iter().enumerate() {
        let ae = AEdit { k: e.k.clone(), a: e.a.clone(), b: e.b.clone(), pr: e.pr.clone() };
        let mut next = vec![];
        // for a second edit, expand only a sample of the first edit's results
        let srcs: Vec<&String> = if i == 0 { toks.iter().collect() } else { toks.iter().take(6).collect() };
        for s in srcs {
            next.extend(expand(&ae, s, &ctx, cfg.budget, r));
        }
        toks = next;
        *st.by_edit.entry(e.k.clone()).or_insert(0) += toks.len();
    }
    if !case.edits.is_empty() {
        // strings that are the authentic token up to the tolerated differences (an added empty footer
        // segment, a re-encoded ECDSA signature): a chain of concrete edits may arrive there by chance
        // (flip a bit, add '.', flip it back) although the abstract chain does not
        let forms = |base: &String| -> Vec<String> {
            let mut tolerated: Vec<String> = vec![base.clone()];
            if pr.v == 3 && pr.public {
                if let Some(p) = Parts::parse(base) {
                    if let Some(d) = unb64(&p.payload) {
                        if d.len() >= 96 {
                            let n = d.len();
                            let mut m = d[..n - 48].to_vec();
                            m.extend(p384_negate(&d[n - 48..]));
                            tolerated.push(p.with_payload_bytes(&m));
                        }
                    }
                }
            }
            for t in tolerated.clone() {
                if t.split('.').count() == 3 {
                    tolerated.push(format!("{}.", t));
                }
            }
            tolerated
        };
        let tolerated = forms(&tok);
        if !case.tolerated {
            toks.retain(|t| !tolerated.contains(t));
        }
        // ... and the same for the other authentic tokens the splices draw from: a chain may assemble
        // one of them completely and then apply a tolerated edit (found by seed 1: splice body from the
        // key variant + foot-add-empty = the token of key k2 with an empty footer segment, which key k2
        // rightly opens)
        let other_forms: Vec<String> = others.values().flat_map(|o| forms(o)).collect();
        toks.retain(|t| *t != tok && !other_forms.contains(t));
        // tokens with a very long footer (64 KiB pairs) cost ~100x per presentation: fewer of them
        let max_tokens = if tok.len() > 20000 { cfg.max_tokens.min(1500) } else { cfg.max_tokens };
        if toks.len() > max_tokens {
            // deterministic thinning that keeps the first and last elements
            let step = toks.len() as f64 / max_tokens as f64;
            toks = (0..max_tokens).map(|i| toks[(i as f64 * step) as usize].clone()).collect();
        }
    }
    let msg = &inst.msgs[&case.mint.m];
    for (ti, t) in toks.iter().enumerate() {
        st.tokens += 1;
        for (pi, p) in case.pres.iter().enumerate() {
            let props = props_of(case, p);
            if !want(&props) {
                continue;
            }
            let matching = p.pr == case.mint.pr && p.k == case.mint.k && fb(&p.f) == fb(&case.mint.f) && fb(&p.a) == fb(&case.mint.a);
            if !matching && !case.unaltered && ti >= cfg.offdiag_tokens {
                continue;
            }
            let ppr = match parse_proto(&p.pr) {
                Some(x) => x,
                None => continue,
            };
            for layer in &cfg.layers {
                // for the first few altered tokens of a case: the authentic token is accepted under its own
                // parameters immediately before (same thread, same entry point) - an acceptance must not
                // leave anything behind that makes the altered token pass
                // (also for the unaltered token about to be presented under another key / footer / assertion)
                if p.exp != "ok" && ti < 2 && (case.unaltered || pi < 16 || pi % 8 == 0 || p.k == case.mint.k) && ppr.name() == pr.name() {
                    let prime = present(
                        pr,
                        *layer,
                        &tok,
                        &inst.keys[&case.mint.k],
                        inst.footer(&case.mint.f),
                        if pr.has_assertion() { inst.assertion(&case.mint.a) } else { None },
                    );
                    st.primed += 1;
                    if !prime.0.is_ok() && *layer == Layer::Core {
                        st.prime_failed += 1;
                    }
                }
                let (out, calls) = present(
                    ppr,
                    *layer,
                    t,
                    &inst.keys[&p.k],
                    inst.footer(&p.f),
                    if ppr.has_assertion() { inst.assertion(&p.a) } else { None },
                );
                // a rejection must be stable: the first tokens of a case are presented a second time at once
                // (a refusal must not leave anything behind that makes the same presentation pass next time)
                let (out, calls) = if p.exp != "ok" && ti < 2 && !out.is_ok() {
                    st.repeated += 1;
                    present(
                        ppr,
                        *layer,
                        t,
                        &inst.keys[&p.k],
                        inst.footer(&p.f),
                        if ppr.has_assertion() { inst.assertion(&p.a) } else { None },
                    )
                } else {
                    (out, calls)
                };
                st.presentations += 1;
                st.distinct.insert(hash_str(&format!("{}|{}|{}|{}|{}|{:?}", t, p.pr, p.k, p.f, p.a, layer)));
                match (&*p.exp, &out) {
                    ("ok", _) => st.ok_seen += 1,
                    ("tol", Out::Ok(_)) => st.tol_ok += 1,
                    ("tol", _) => st.tol_rej += 1,
                    _ => st.pre_seen += 1,
                }
                if let Out::ErrPre(variant) = &out {
                    // advisory comparison of the exact error variant with the model's step (never an alarm)
                    if !p.why.is_empty() && case.edits.len() <= 1 {
                        st.variant_total += 1;
                        if variant_matches(&p.why, variant) {
                            st.variant_agree += 1;
                        } else if st.variant_disagree.len() < 40 {
                            *st.variant_disagree.entry(format!("{}->{}", p.why, variant)).or_insert(0) += 1;
                        }
                    }
                }
                let mut verdict = check_outcome(&p.exp, &out, &calls, msg, *layer);
                let mut vprops = props.clone();
                if let Out::Panic(loc) = &out {
                    vprops.push("C09".into());
                    verdict = Err(format!("PANIC at {}", loc));
                }
                if let Err(what) = verdict {
                    st.nviol += 1;
                    if st.violations.len() < cfg.max_violations {
                        st.violations.push(Violation {
                            props: vprops.clone(),
                            what: what.clone(),
                            replay: json!({
                                "kind": "core-replay",
                                "mint": {"pr": case.mint.pr, "k": case.mint.k, "s": case.mint.s, "m": case.mint.m, "f": case.mint.f, "a": case.mint.a},
                                "edits": case.edits.iter().map(|e| json!({"k": e.k, "a": e.a, "b": e.b, "pr": e.pr})).collect::<Vec<_>>(),
                                "instance": inst.desc,
                                "authentic_token": tok,
                                "presented_token": t,
                                "presentation": {"pr": p.pr, "k": p.k, "f": p.f, "a": p.a, "layer": layer.name()},
                                "concrete_footer": inst.footer(&p.f),
                                "concrete_assertion": inst.assertion(&p.a),
                                "predicted": p.exp, "predicted_variant": p.why,
                                "observed": format!("{}:{}", out.class(), out.detail()),
                                "what": what,
                            }),
                        });
                    }
                } else if st.samples.len() < 6 && (st.presentations % 977 == 1) {
                    st.samples.push(json!({
                        "mint": case.mint.pr, "edits": case.edits.iter().map(|e| format!("{}:{}:{}", e.k, e.a, e.b)).collect::<Vec<_>>(),
                        "presented_token": if t.len() > 120 { format!("{}...", &t[..120]) } else { t.clone() },
                        "presentation": format!("{} k={} f={} a={} layer={}", p.pr, p.k, p.f, p.a, layer.name()),
                        "predicted": p.exp, "observed": format!("{}:{}", out.class(), out.detail()),
                    }));
                }
            }
        }
    }
    st.cases += 1;
}

/// C05 / C06 (and C04 for local keys): one authentic token per protocol presented under `n` wrong values
/// of ONE parameter (footer, implicit assertion) that differ from the right one in varied ways - a
/// comparison that lets some fraction of wrong values through (a folded checksum, a truncated compare)
/// shows only against many of them.  The expectation is the model's: a presentation that does not match the
/// origin is rejected before the content is used.
pub fn wide_sweep(prop: &str, n: usize, r: &mut StdRng, st: &mut Stats) {
    for pr in Proto::all() {
        if prop == "C06" && !pr.has_assertion() {
            continue;
        }
        let slow = pr.public && (pr.v == 1 || pr.v == 3);
        let n = if slow { n / 8 } else { n };
        let km = conc::random_keymat(r, 0);
        let nonce = conc::random_bytes32(r);
        let msg = conc::json_message(r, 24, 0);
        let (f, a) = ("kid-7", "tenant:42");
        let has_a = pr.has_assertion();
        let tok = match core_mint(pr, &km, &nonce, &msg, Some(f), if has_a { Some(a) } else { None }) {
            Out::Ok(t) => t,
            _ => continue,
        };
        for i in 0..n {
            let wrong = match i % 5 {
                0 => format!("{}{}", if prop == "C05" { "kid-" } else { "tenant:" }, i),
                1 => format!("{}{}", if prop == "C05" { f } else { a }, i),
                2 => conc::message(r, 1 + i % 40, i),
                3 => format!("{}", i),
                _ => format!("{}{}", i, if prop == "C05" { f } else { a }),
            };
            if (prop == "C05" && wrong == f) || (prop == "C06" && wrong == a) {
                continue;
            }
            let (pf, pa) = if prop == "C05" { (wrong.as_str(), a) } else { (f, wrong.as_str()) };
            let out = core_present(pr, &tok, &km, Some(pf), if has_a { Some(pa) } else { None });
            st.presentations += 1;
            st.pre_seen += 1;
            if out.is_ok() || matches!(out, Out::Panic(_)) {
                st.nviol += 1;
                if st.violations.len() < 20 {
                    st.violations.push(Violation {
                        props: vec![prop.to_string()],
                        what: format!("token bound to footer {:?} / assertion {:?} accepted under footer {:?} / assertion {:?} ({}): {}", f, a, pf, pa, pr.name(), out.class()),
                        replay: json!({"kind": "wide-sweep", "pr": pr.name(), "token": tok, "key": hex::encode(km.sym), "footer": f, "assertion": a,
                                       "presented_footer": pf, "presented_assertion": pa, "observed": format!("{}:{}", out.class(), out.detail())}),
                    });
                }
            }
        }
    }
}

pub fn load_cases(path: &str) -> Vec<CaseRec> {
    let text = std::fs::read_to_string(path).expect("cases file");
    let mut v = vec![];
    for line in text.lines() {
        let line = line.trim();
        if line.is_empty() {
            continue;
        }
        match serde_json::from_str::<CaseRec>(line) {
            Ok(c) => v.push(c),
            Err(e) => {
                eprintln!("bad case line: {} ({})", &line[..line.len().min(200)], e);
                std::process::exit(2);
            }
        }
    }
    v
}
