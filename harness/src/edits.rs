//! Concrete token-text edits: the expansion of the abstract edit kinds of
//! spec/Core.tla to all positions (or a seeded sample) of a concrete token.
//!
//! This file knows the *text* structure of a token (segments, base64url) and receives
//! the field layout of the decoded payload from the specification (`layout` of a
//! replay case); it has no protocol table of its own.

use base64::prelude::*;
use rand::rngs::StdRng;
use rand::Rng;

pub const B64_ALPHABET: &[u8; 64] = b"ABCDEFGHIJKLMNOPQRSTUVWXYZabcdefghijklmnopqrstuvwxyz0123456789-_";

pub fn b64(bytes: &[u8]) -> String {
    BASE64_URL_SAFE_NO_PAD.encode(bytes)
}

/// An independently written unpadded base64url encoder (used to check the footer
/// segment of produced tokens without trusting the base64 crate the library uses).
pub fn b64_independent(bytes: &[u8]) -> String {
    let mut out = String::new();
    let mut i = 0;
    while i < bytes.len() {
        let b0 = bytes[i] as u32;
        let b1 = if i + 1 < bytes.len() { bytes[i + 1] as u32 } else { 0 };
        let b2 = if i + 2 < bytes.len() { bytes[i + 2] as u32 } else { 0 };
        let n = (b0 << 16) | (b1 << 8) | b2;
        let rem = bytes.len() - i;
        out.push(B64_ALPHABET[((n >> 18) & 63) as usize] as char);
        out.push(B64_ALPHABET[((n >> 12) & 63) as usize] as char);
        if rem > 1 {
            out.push(B64_ALPHABET[((n >> 6) & 63) as usize] as char);
        }
        if rem > 2 {
            out.push(B64_ALPHABET[(n & 63) as usize] as char);
        }
        i += 3;
    }
    out
}

pub fn unb64(s: &str) -> Option<Vec<u8>> {
    BASE64_URL_SAFE_NO_PAD.decode(s).ok()
}

/// A token split into its text parts
#[derive(Clone, Debug)]
pub struct Parts {
    pub header: String, // "v4.local." including both dots
    pub payload: String,
    pub footer: Option<String>, // text of the 4th segment
}

impl Parts {
    pub fn parse(tok: &str) -> Option<Parts> {
        let segs: Vec<&str> = tok.split('.').collect();
        if segs.len() < 3 || segs.len() > 4 {
            return None;
        }
        Some(Parts {
            header: format!("{}.{}.", segs[0], segs[1]),
            payload: segs[2].to_string(),
            footer: segs.get(3).map(|s| s.to_string()),
        })
    }
    pub fn text(&self) -> String {
        match &self.footer {
            Some(f) => format!("{}{}.{}", self.header, self.payload, f),
            None => format!("{}{}", self.header, self.payload),
        }
    }
    pub fn with_payload_bytes(&self, bytes: &[u8]) -> String {
        let mut p = self.clone();
        p.payload = b64(bytes);
        p.text()
    }
}

#[derive(Clone, Debug)]
pub struct FieldSpec {
    pub name: String,
    pub len: i64, // -1 = the variable-length field
}

/// byte range of every field of a decoded payload of `total` bytes
pub fn field_ranges(layout: &[FieldSpec], total: usize) -> Vec<(String, usize, usize)> {
    let fixed: usize = layout.iter().filter(|f| f.len >= 0).map(|f| f.len as usize).sum();
    let var = total.saturating_sub(fixed);
    let mut out = vec![];
    let mut off = 0usize;
    for f in layout {
        let l = if f.len >= 0 { f.len as usize } else { var };
        out.push((f.name.clone(), off, off + l));
        off += l;
    }
    out
}

/// byte range of a field, clamped to the payload actually present (an already edited token
/// may be shorter than its layout); None when nothing of the field is left
pub fn range_of(layout: &[FieldSpec], total: usize, name: &str) -> Option<(usize, usize)> {
    field_ranges(layout, total)
        .into_iter()
        .find(|(n, _, _)| n == name)
        .map(|(_, a, b)| (a.min(total), b.min(total)))
        .filter(|(a, b)| a < b)
}

/// how many positions / variants an expansion may produce
#[derive(Clone, Copy, Debug)]
pub struct Budget {
    /// max bit positions per field (usize::MAX = all)
    pub bits: usize,
    /// max character substitutions per kind
    pub chars: usize,
    /// generic cap for the other kinds
    pub other: usize,
}

fn sample_positions(n: usize, cap: usize, r: &mut StdRng) -> Vec<usize> {
    if n <= cap {
        return (0..n).collect();
    }
    // always keep the first and last 16 positions, sample the rest
    let mut v: Vec<usize> = (0..16.min(n)).collect();
    v.extend(n.saturating_sub(16)..n);
    while v.len() < cap {
        v.push(r.gen_range(0..n));
    }
    v.sort();
    v.dedup();
    v
}

const P384_ORDER: [u8; 48] = [
    0xff, 0xff, 0xff, 0xff, 0xff, 0xff, 0xff, 0xff, 0xff, 0xff, 0xff, 0xff, 0xff, 0xff, 0xff, 0xff, 0xff, 0xff, 0xff,
    0xff, 0xff, 0xff, 0xff, 0xff, 0xc7, 0x63, 0x4d, 0x81, 0xf4, 0x37, 0x2d, 0xdf, 0x58, 0x1a, 0x0d, 0xb2, 0x48, 0xb0,
    0xa7, 0x7a, 0xec, 0xec, 0x19, 0x6a, 0xcc, 0xc5, 0x29, 0x73,
];

/// n - s for 48-byte big-endian integers (ECDSA signature malleability)
pub fn p384_negate(s: &[u8]) -> Vec<u8> {
    let mut out = vec![0u8; 48];
    let mut borrow = 0i32;
    for i in (0..48).rev() {
        let mut d = P384_ORDER[i] as i32 - s[i] as i32 - borrow;
        if d < 0 {
            d += 256;
            borrow = 1;
        } else {
            borrow = 0;
        }
        out[i] = d as u8;
    }
    out
}

/// An abstract edit as printed by the specification
#[derive(Clone, Debug)]
pub struct AEdit {
    pub k: String,
    pub a: String,
    pub b: String,
    pub pr: String,
}

/// Context an expansion may need
pub struct EditCtx<'a> {
    pub layout: &'a [FieldSpec],
    /// the second authentic token for a splice variant (same concretisation, one parameter changed)
    pub other_token: &'a dyn Fn(&str) -> Option<String>,
    /// concrete footer for an abstract footer name ("empty" -> "")
    pub footer_of: &'a dyn Fn(&str) -> String,
    /// is the decoded payload's signature an ECDSA P-384 one (for sig-reencode)
    pub ecdsa: bool,
}

fn subst_char(s: &str, idx: usize, c: char) -> String {
    let mut v: Vec<char> = s.chars().collect();
    v[idx] = c;
    v.into_iter().collect()
}

/// Non-canonical renderings of one base64url segment (padding, trailing bits, foreign
/// characters, whitespace). Every result fails strict unpadded base64url decoding or
/// decodes to the same bytes through a different text (which the library must reject).
fn noncanonical(seg: &str, r: &mut StdRng, cap: usize) -> Vec<String> {
    let mut out = vec![];
    out.push(format!("{}=", seg));
    out.push(format!("{}==", seg));
    out.push(format!("{} ", seg));
    out.push(format!("{}\n", seg));
    out.push(format!("{}\t", seg));
    out.push(format!(" {}", seg));
    let n = seg.chars().count();
    if n > 0 {
        // trailing bits: when len % 4 == 2 the last char has 4 free bits, when == 3 it has 2
        let free = match n % 4 {
            2 => 4,
            3 => 2,
            _ => 0,
        };
        if free > 0 {
            let last = seg.chars().last().unwrap();
            if let Some(pos) = B64_ALPHABET.iter().position(|c| *c as char == last) {
                for bits in 1..(1usize << free) {
                    let alt = (pos & !((1 << free) - 1)) | bits;
                    if alt != pos {
                        out.push(subst_char(seg, n - 1, B64_ALPHABET[alt] as char));
                    }
                }
            }
        }
        // a single dangling character (length % 4 == 1) can never be canonical
        if n % 4 != 1 {
            out.push(format!("{}A", &seg));
            if n % 4 == 0 || n % 4 == 3 {
                // stay non-canonical: one more char makes len % 4 == 1 only for n % 4 == 0
            }
        }
        // the standard-alphabet twins of the two url-safe symbols, at every place they occur (up to 24)
        for (idx, ch) in seg.chars().enumerate().filter(|(_, ch)| *ch == '-' || *ch == '_').take(24) {
            out.push(subst_char(seg, idx, if ch == '-' { '+' } else { '/' }));
        }
        for c in ['+', '/', '*', ',', '\0', 'é', '%'] {
            for idx in sample_positions(n, cap.min(6), r) {
                out.push(subst_char(seg, idx, c));
            }
        }
    }
    // keep only strings that are NOT a canonical encoding (a dangling 'A' may be canonical)
    out.retain(|s| s != seg && (unb64(s).is_none() || b64(&unb64(s).unwrap()) != *s));
    out
}

/// Expand one abstract edit on one concrete token to concrete mutated token strings.
pub fn expand(e: &AEdit, tok: &str, ctx: &EditCtx, budget: Budget, r: &mut StdRng) -> Vec<String> {
    let parts = match Parts::parse(tok) {
        Some(p) => p,
        None => return vec![],
    };
    let bytes = unb64(&parts.payload);
    let mut out: Vec<String> = vec![];
    match e.k.as_str() {
        "flip" => {
            if let Some(bytes) = bytes {
                if let Some((a, b)) = range_of(ctx.layout, bytes.len(), &e.a) {
                    // every single-bit flip in the field
                    let nbits = (b - a) * 8;
                    for bit in sample_positions(nbits, budget.bits, r) {
                        let mut m = bytes.clone();
                        m[a + bit / 8] ^= 1 << (bit % 8);
                        out.push(parts.with_payload_bytes(&m));
                    }
                    // compensating changes that a checksum-like comparison would not see: the same bit
                    // flipped in two bytes, two bytes exchanged, the field reversed
                    if b - a >= 2 && budget.bits > 0 {
                        for _ in 0..8usize.min(b - a) {
                            let i = a + r.gen_range(0..b - a);
                            let mut j = a + r.gen_range(0..b - a);
                            if j == i {
                                j = if i + 1 < b { i + 1 } else { a };
                            }
                            let mut m = bytes.clone();
                            let bit = 1u8 << r.gen_range(0..8);
                            m[i] ^= bit;
                            m[j] ^= bit;
                            out.push(parts.with_payload_bytes(&m));
                            if bytes[i] != bytes[j] {
                                let mut m = bytes.clone();
                                m.swap(i, j);
                                out.push(parts.with_payload_bytes(&m));
                            }
                        }
                        let mut m = bytes.clone();
                        m[a..b].reverse();
                        if m != bytes {
                            out.push(parts.with_payload_bytes(&m));
                        }
                    }
                    // single-character substitutions of the payload text inside the field
                    let n = parts.payload.len();
                    let c_lo = (a * 4) / 3;
                    let c_hi = ((b * 4) + 2) / 3;
                    let span = c_hi.min(n).saturating_sub(c_lo);
                    let total = span * 63;
                    for k in sample_positions(total, budget.chars, r) {
                        let idx = c_lo + k / 63;
                        let cur = parts.payload.as_bytes()[idx];
                        let cur_pos = B64_ALPHABET.iter().position(|c| *c == cur).unwrap_or(0);
                        let alt = B64_ALPHABET[(cur_pos + 1 + k % 63) % 64] as char;
                        let mut p = parts.clone();
                        p.payload = subst_char(&parts.payload, idx, alt);
                        // only canonical results belong to this class (others are pay-noncanon)
                        if let Some(d) = unb64(&p.payload) {
                            if b64(&d) == p.payload {
                                out.push(p.text());
                            }
                        }
                    }
                }
            }
        }
        "trunc-tail" | "trunc-head" => {
            if let Some(bytes) = bytes {
                // every cut of a payload of ordinary size (each lands in some length window of the
                // decryption code); a sample of a very long one
                let maxj = if bytes.len() <= 512 { bytes.len() } else { bytes.len().min(budget.other.max(1)) };
                for j in 1..=maxj {
                    let m = if e.k == "trunc-tail" { &bytes[..bytes.len() - j] } else { &bytes[j..] };
                    out.push(parts.with_payload_bytes(m));
                }
                if bytes.len() > maxj {
                    // also the complete removal and a cut at every field boundary
                    out.push(parts.with_payload_bytes(&[]));
                    for (_, a, _) in field_ranges(ctx.layout, bytes.len()) {
                        // after an earlier edit of a chain the payload may be shorter than the layout
                        let a = a.min(bytes.len());
                        let m = if e.k == "trunc-tail" { &bytes[..a] } else { &bytes[a..] };
                        out.push(parts.with_payload_bytes(m));
                    }
                }
            }
        }
        "drop-field" => {
            if let Some(bytes) = bytes {
                if let Some((a, b)) = range_of(ctx.layout, bytes.len(), &e.a) {
                    let mut m = bytes[..a].to_vec();
                    m.extend_from_slice(&bytes[b..]);
                    out.push(parts.with_payload_bytes(&m));
                }
            }
        }
        "extend-tail" | "extend-head" => {
            if let Some(bytes) = bytes {
                for j in 1..=budget.other.clamp(1, 64) {
                    for fill in [0u8, 0xff, 0x41] {
                        let junk: Vec<u8> = if fill == 0x41 { (0..j).map(|_| r.gen()).collect() } else { vec![fill; j] };
                        let mut m;
                        if e.k == "extend-tail" {
                            m = bytes.clone();
                            m.extend_from_slice(&junk);
                        } else {
                            m = junk.clone();
                            m.extend_from_slice(&bytes);
                        }
                        out.push(parts.with_payload_bytes(&m));
                    }
                }
            }
        }
        "insert-after" => {
            if let Some(bytes) = bytes {
                if let Some((_, b)) = range_of(ctx.layout, bytes.len(), &e.a) {
                    for d in [-2i64, -1, 0, 1, 2] {
                        let pos = b as i64 + d;
                        if pos < 0 || pos as usize > bytes.len() {
                            continue;
                        }
                        for j in 1..=3usize {
                            let mut m = bytes[..pos as usize].to_vec();
                            m.extend((0..j).map(|_| r.gen::<u8>()));
                            m.extend_from_slice(&bytes[pos as usize..]);
                            out.push(parts.with_payload_bytes(&m));
                        }
                    }
                }
            }
        }
        "splice" => {
            if let (Some(bytes), Some(t2)) = (bytes, (ctx.other_token)(&e.b)) {
                if let Some(p2) = Parts::parse(&t2) {
                    if let Some(b2) = unb64(&p2.payload) {
                        if let (Some((a, b)), Some((a2, e2))) =
                            (range_of(ctx.layout, bytes.len(), &e.a), range_of(ctx.layout, b2.len(), &e.a))
                        {
                            let mut m = bytes[..a].to_vec();
                            m.extend_from_slice(&b2[a2..e2]);
                            m.extend_from_slice(&bytes[b..]);
                            out.push(parts.with_payload_bytes(&m));
                        }
                    }
                }
            }
        }
        "sig-reencode" => {
            if let Some(bytes) = bytes {
                if ctx.ecdsa && bytes.len() >= 96 {
                    let n = bytes.len();
                    let mut m = bytes[..n - 48].to_vec();
                    m.extend(p384_negate(&bytes[n - 48..]));
                    out.push(parts.with_payload_bytes(&m));
                }
            }
        }
        "pay-noncanon" => {
            for s in noncanonical(&parts.payload, r, budget.other) {
                let mut p = parts.clone();
                p.payload = s;
                out.push(p.text());
            }
        }
        "hdr-bad" => {
            let h = &parts.header;
            let rest = &tok[h.len()..];
            let hc: Vec<char> = h.chars().collect();
            let valid: Vec<String> = (1..=4)
                .flat_map(|v| vec![format!("v{}.local.", v), format!("v{}.public.", v)])
                .collect();
            let mut cands: Vec<String> = vec![];
            for i in 0..hc.len() {
                for c in ['V', 'v', 'x', '0', '5', '9', ' ', '\0', 'é', 'L', 'P', '_'] {
                    if hc[i] != c && hc[i] != '.' {
                        cands.push(subst_char(h, i, c));
                    }
                }
                if hc[i] != '.' {
                    // delete / duplicate a character
                    let mut d = hc.clone();
                    d.remove(i);
                    cands.push(d.iter().collect());
                    let mut d = hc.clone();
                    d.insert(i, hc[i]);
                    cands.push(d.iter().collect());
                }
            }
            // multi-byte characters inserted at every position (the token keeps its segment count)
            for i in 0..=hc.len() {
                for c in ['é', '€', '😀'] {
                    let mut d = hc.clone();
                    d.insert(i, c);
                    cands.push(d.iter().collect());
                }
            }
            cands.push(h.to_uppercase());
            cands.push(format!(" {}", h));
            cands.push(h.replace("local", "Local").replace("public", "Public"));
            for c in cands {
                if !valid.contains(&c) && c != *h {
                    out.push(format!("{}{}", c, rest));
                }
            }
        }
        "relabel" => {
            let rest = &tok[parts.header.len()..];
            out.push(format!("{}.{}", e.pr, rest));
        }
        "foot-drop" => {
            if parts.footer.is_some() {
                let mut p = parts.clone();
                p.footer = None;
                out.push(p.text());
            }
        }
        "foot-add-empty" => {
            if parts.footer.is_none() {
                out.push(format!("{}.", tok));
            }
        }
        "foot-add" | "foot-replace" => {
            let want_present = e.k == "foot-replace";
            if parts.footer.is_some() == want_present {
                let mut p = parts.clone();
                p.footer = Some(b64((ctx.footer_of)(&e.b).as_bytes()));
                out.push(p.text());
            }
        }
        "foot-noncanon" => {
            if let Some(f) = &parts.footer {
                for s in noncanonical(f, r, budget.other) {
                    let mut p = parts.clone();
                    p.footer = Some(s);
                    out.push(p.text());
                }
            }
        }
        "foot-garble" => {
            if let Some(f) = &parts.footer {
                if let Some(fb) = unb64(f) {
                    // every bit of a short footer; of a long one (up to 64 KiB) a sample
                    let nbits = if fb.len() > 256 { budget.bits.min(2048) } else { budget.bits };
                    for bit in sample_positions(fb.len() * 8, nbits, r) {
                        let mut m = fb.clone();
                        m[bit / 8] ^= 1 << (bit % 8);
                        let mut p = parts.clone();
                        p.footer = Some(b64(&m));
                        out.push(p.text());
                    }
                    // compensating changes (same length, same XOR of the characters): two characters of the
                    // segment exchanged, the segment reversed / rotated, the same bit flipped in two bytes
                    {
                        let fc: Vec<char> = f.chars().collect();
                        let canonical = |s: &String| unb64(s).map(|d| b64(&d) == *s).unwrap_or(false);
                        let mut cands: Vec<String> = vec![fc.iter().rev().collect()];
                        if fc.len() >= 2 {
                            let mut rot = fc.clone();
                            rot.rotate_left(1);
                            cands.push(rot.iter().collect());
                            for _ in 0..6 {
                                let i = r.gen_range(0..fc.len());
                                let j = r.gen_range(0..fc.len());
                                let mut sw = fc.clone();
                                sw.swap(i, j);
                                cands.push(sw.iter().collect());
                            }
                        }
                        if fb.len() >= 2 {
                            for _ in 0..6 {
                                let i = r.gen_range(0..fb.len());
                                let j = (i + 1 + r.gen_range(0..fb.len() - 1)) % fb.len();
                                let bit = 1u8 << r.gen_range(0..8);
                                let mut m = fb.clone();
                                m[i] ^= bit;
                                m[j] ^= bit;
                                cands.push(b64(&m));
                            }
                        }
                        for c in cands {
                            if c != *f && canonical(&c) {
                                let mut p = parts.clone();
                                p.footer = Some(c);
                                out.push(p.text());
                            }
                        }
                    }
                    let n = f.len();
                    for k in sample_positions(n * 63, budget.chars, r) {
                        let idx = k / 63;
                        let cur = f.as_bytes()[idx];
                        let cur_pos = B64_ALPHABET.iter().position(|c| *c == cur).unwrap_or(0);
                        let alt = B64_ALPHABET[(cur_pos + 1 + k % 63) % 64] as char;
                        let s = subst_char(f, idx, alt);
                        if let Some(d) = unb64(&s) {
                            if b64(&d) == s {
                                let mut p = parts.clone();
                                p.footer = Some(s);
                                out.push(p.text());
                            }
                        }
                    }
                }
            }
        }
        "foot-trunc" => {
            if let Some(f) = &parts.footer {
                let fc: Vec<char> = f.chars().collect();
                // every proper prefix of a short segment; of a long one (up to 64 KiB footers) the shortest, the
                // longest and a sample in between
                let lens: Vec<usize> = if fc.len() <= 96 {
                    (1..fc.len()).collect()
                } else {
                    let mut v: Vec<usize> = (1..=8).chain(fc.len() - 8..fc.len()).collect();
                    for _ in 0..16 {
                        v.push(r.gen_range(9..fc.len() - 8));
                    }
                    v
                };
                for l in lens {
                    let mut p = parts.clone();
                    p.footer = Some(fc[..l].iter().collect());
                    out.push(p.text());
                }
            }
        }
        "foot-extend" => {
            if let Some(f) = &parts.footer {
                for j in 1..=4usize {
                    for fill in ['A', '_', 'Q'] {
                        let mut p = parts.clone();
                        p.footer = Some(format!("{}{}", f, fill.to_string().repeat(j)));
                        out.push(p.text());
                    }
                }
                if let Some(fb) = unb64(f) {
                    for j in 1..=3usize {
                        let mut m = fb.clone();
                        m.extend((0..j).map(|_| r.gen::<u8>()));
                        let mut p = parts.clone();
                        p.footer = Some(b64(&m));
                        out.push(p.text());
                    }
                }
            }
        }
        "extra-seg" => {
            let need = if parts.footer.is_some() { 1 } else { 2 };
            out.push(format!("{}{}", tok, ".x".repeat(need)));
            out.push(format!("{}{}", tok, ".".repeat(need)));
            out.push(format!("{}{}", tok, ".AAAA".repeat(need + 1)));
        }
        "few-seg" => {
            let h = parts.header.trim_end_matches('.');
            out.push(h.to_string());
            out.push(h.split('.').next().unwrap_or("").to_string());
            out.push(String::new());
            // every proper prefix of the header text without its final dot
            for l in 1..h.len() {
                out.push(h[..l].to_string());
            }
        }
        "prefix-payload" => {
            let base = parts.header.len();
            let n = parts.payload.len();
            for k in sample_positions(n, budget.other.max(8) * 4, r) {
                out.push(tok[..base + k].to_string());
            }
        }
        "dot-insert" => {
            let base = parts.header.len();
            let n = parts.payload.len();
            for k in sample_positions(n.saturating_sub(1), budget.other.max(8), r) {
                let pos = base + k + 1;
                out.push(format!("{}.{}", &tok[..pos], &tok[pos..]));
            }
        }
        "random-multi" => {
            if let Some(bytes) = bytes {
                for _ in 0..budget.other.max(4) * 4 {
                    let mut m = bytes.clone();
                    if m.is_empty() {
                        break;
                    }
                    let k = r.gen_range(2..=8usize.min(m.len().max(2)));
                    for _ in 0..k {
                        let i = r.gen_range(0..m.len());
                        m[i] = r.gen();
                    }
                    out.push(parts.with_payload_bytes(&m));
                }
            }
        }
        _ => {}
    }
    out.retain(|s| s != tok);
    out.sort();
    out.dedup();
    out
}
