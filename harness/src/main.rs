mod api;
mod conc;

use api::*;

fn smoke() -> i32 {
    install_panic_hook();
    let mut r = conc::rng(1, "smoke");
    let km = conc::random_keymat(&mut r, 0);
    let km2 = conc::random_keymat(&mut r, 1);
    let mut bad = 0;
    for pr in Proto::all() {
        let nonce = conc::random_bytes32(&mut r);
        let msg = conc::json_message(&mut r, 20, 2);
        let a = if pr.has_assertion() { Some("assert") } else { None };
        let t = core_mint(pr, &km, &nonce, &msg, Some("foot"), a);
        let tok = match t {
            Out::Ok(t) => t,
            o => {
                println!("{} mint failed {:?}", pr.name(), o);
                bad += 1;
                continue;
            }
        };
        for layer in [Layer::Core, Layer::Generic, Layer::Prelude] {
            let (o, calls) = present(pr, layer, &tok, &km, Some("foot"), a);
            let (o2, _) = present(pr, layer, &tok, &km2, Some("foot"), a);
            println!("{} {:?} good={} calls={} wrongkey={}:{}", pr.name(), layer, o.class(), calls.len(), o2.class(), o2.detail());
            if !o.is_ok() || o2.class() != "pre" {
                bad += 1;
            }
        }
        for layer in [Layer::Generic, Layer::Prelude] {
            let ops = vec![
                BOp::SetClaim { key: "sub".into(), value: serde_json::json!("me"), via: Via::Typed },
                BOp::SetClaim { key: "n".into(), value: serde_json::json!(5), via: Via::Typed },
                BOp::SetFooter("foot".into()),
                BOp::Build,
                BOp::Build,
            ];
            let outs = run_builder(pr, layer, &ops, &km);
            for o in outs {
                match o {
                    Out::Ok(t) => {
                        let (o, _) = present(pr, Layer::Generic, &t, &km, Some("foot"), None);
                        println!("  built via {:?}: parse {} {:?}", layer, o.class(), o.clone().ok());
                        if !o.is_ok() {
                            bad += 1;
                        }
                    }
                    o => {
                        println!("  build failed {:?}", o);
                        bad += 1;
                    }
                }
            }
        }
    }
    println!("v4.local.AAAA -> {:?}", core_present(Proto::new(4, "local"), "v4.local.AAAA", &km, None, None));
    bad
}

fn main() {
    let args: Vec<String> = std::env::args().collect();
    let code = match args.get(1).map(|s| s.as_str()) {
        Some("smoke") => smoke(),
        _ => {
            eprintln!("usage: pv <smoke|...>");
            2
        }
    };
    std::process::exit(code);
}
