mod api;
mod builder_run;
mod c08;
mod claims_replay;
mod conc;
mod core_replay;
mod edits;
mod minted;
mod parser_run;
mod shapes;
mod terms;

use api::*;
use core_replay::*;
use edits::Budget;
use serde_json::{json, Value};
use std::time::Instant;

fn arg(args: &[String], name: &str) -> Option<String> {
    args.iter().position(|a| a == name).and_then(|i| args.get(i + 1).cloned())
}

fn smoke() -> i32 {
    install_panic_hook();
    let mut r = conc::rng(1, "smoke");
    let km = conc::random_keymat(&mut r, 0);
    let km2 = conc::random_keymat(&mut r, 1);
    let mut bad = 0;
    for pr in Proto::all() {
        let nonce = conc::random_bytes32(&mut r);
        let msg = conc::json_message(&mut r, 20, 2);
        let a = if pr.has_assertion() { Some("assert") } else { None };
        let tok = match core_mint(pr, &km, &nonce, &msg, Some("foot"), a) {
            Out::Ok(t) => t,
            o => {
                println!("{} mint failed {:?}", pr.name(), o);
                bad += 1;
                continue;
            }
        };
        for layer in [Layer::Core, Layer::Generic, Layer::Prelude] {
            let (o, _) = present(pr, layer, &tok, &km, Some("foot"), a);
            let (o2, _) = present(pr, layer, &tok, &km2, Some("foot"), a);
            if !o.is_ok() || o2.class() != "pre" {
                println!("{} {:?} good={} wrongkey={}", pr.name(), layer, o.class(), o2.class());
                bad += 1;
            }
        }
    }
    println!("smoke bad={}", bad);
    bad
}

/// Writes the result summary of a replay run as JSON (read by bin/check)
fn write_summary(path: &str, prop: &str, st: &Stats, wall: f64, extra: Value) {
    let viol: Vec<Value> = st
        .violations
        .iter()
        .map(|v| json!({"props": v.props, "what": v.what, "replay": v.replay}))
        .collect();
    let by_edit: serde_json::Map<String, Value> = st.by_edit.iter().map(|(k, v)| (k.clone(), json!(v))).collect();
    let s = json!({
        "prop": prop,
        "cases": st.cases, "instances": st.instances, "tokens": st.tokens,
        "presentations": st.presentations, "distinct": st.distinct.len(),
        "expected_ok": st.ok_seen, "expected_reject": st.pre_seen,
        "tolerated_accepted": st.tol_ok, "tolerated_rejected": st.tol_rej,
        "mutants_by_edit_kind": by_edit,
        "nviol": st.nviol, "violations": viol, "samples": st.samples,
        "primed_presentations": st.primed, "repeated_rejections": st.repeated, "prime_failed": st.prime_failed, "advisory_variant_total": st.variant_total, "advisory_variant_agree": st.variant_agree,
        "advisory_variant_disagree": st.variant_disagree,
        "wall_s": wall, "extra": extra,
    });
    std::fs::write(path, serde_json::to_string_pretty(&s).unwrap()).expect("write summary");
}

const THREADS: usize = 12;

fn replay_core(args: &[String]) -> i32 {
    install_panic_hook();
    let cases_path = arg(args, "--cases").expect("--cases");
    let prop = arg(args, "--prop").expect("--prop");
    let tier = arg(args, "--tier").unwrap_or_else(|| "quick".into());
    let seed: u64 = arg(args, "--seed").and_then(|s| s.parse().ok()).unwrap_or(1);
    let out = arg(args, "--out").expect("--out");
    let thorough = tier == "thorough";
    let t0 = Instant::now();
    let cases = load_cases(&cases_path);
    if !["C01", "C02", "C03", "C04", "C05", "C06", "C07"].contains(&prop.as_str()) {
        eprintln!("replay-core: unknown property {}", prop);
        return 2;
    }
    let mut st = Stats::default();
    std::thread::scope(|sc| {
        let mut hs = vec![];
        for t in 0..THREADS {
            let cases = &cases;
            let prop = prop.clone();
            hs.push(sc.spawn(move || core_plan(&prop, thorough, seed, cases, t)));
        }
        for h in hs {
            st.merge(h.join().expect("replay thread"));
        }
    });
    write_summary(&out, &prop, &st, t0.elapsed().as_secs_f64(), json!({"tier": tier, "seed": seed, "threads": THREADS}));
    if st.nviol > 0 {
        1
    } else {
        0
    }
}

fn core_plan(prop: &str, thorough: bool, seed: u64, all_cases: &[CaseRec], tidx: usize) -> Stats {
    let cases: Vec<&CaseRec> = all_cases.iter().enumerate().filter(|(i, _)| i % THREADS == tidx).map(|(_, c)| c).collect();
    let mut r = conc::rng(seed, &format!("core-{}-{}", prop, tidx));
    let mut rp = conc::rng(seed, &format!("pairs-{}", prop));
    let pairs = conc::string_pairs(&mut rp, if thorough { 64 } else { 8 });
    let mut st = Stats::default();
    let all_layers = vec![Layer::Core, Layer::Generic, Layer::Prelude];
    let want_prop = |props: &[String]| props.iter().any(|p| *p == prop);
    let slow = |pr: &str| pr == "v1.public" || pr == "v3.public";

    match prop {
        "C01" | "C02" => {
            let public = prop == "C02";
            let mut lens: Vec<usize> = (0..=(if thorough { 1024 } else { 192 })).collect();
            lens.extend(conc::boundary_lengths());
            if thorough {
                lens.extend((1025..8300).step_by(13));
                lens.extend([65535, 65536, 65537, 1 << 20]);
                // the same lengths again under other keys / footers / assertions / content classes
                let again: Vec<usize> = lens.iter().copied().filter(|l| *l <= 4200).collect();
                lens.extend(again.iter().copied());
                lens.extend(again.iter().copied());
            } else {
                lens.extend([65535, 65536, 65537]);
            }
            if !thorough {
                lens.sort();
                lens.dedup();
            }
            for case in cases.iter().copied().filter(|c| c.unaltered && c.mint.pr.ends_with("public") == public) {
                let is_slow = slow(&case.mint.pr);
                for (i, len) in lens.iter().enumerate() {
                    // RSA / P-384: every 4th length in quick (all abstract cases are kept)
                    if is_slow && !thorough && i % 4 != 0 && *len > 70 {
                        continue;
                    }
                    if is_slow && *len > 70000 {
                        continue;
                    }
                    // core layer: arbitrary UTF-8 of exactly `len` bytes
                    let spec = InstSpec {
                        msg_len: *len,
                        msg_class: i,
                        json_msg: false,
                        pair_idx: i,
                        k2: K2Mode::Random,
                        k1_special: if i % 97 == 5 { 1 } else if i % 97 == 6 { 2 } else { 0 },
                        seed_special: if i % 89 == 7 { 1 } else if i % 89 == 8 { 2 } else { 0 },
                    };
                    let inst = make_instance(&spec, &pairs, &mut r);
                    let cfg = ReplayCfg {
                        layers: vec![Layer::Core],
                        budget: Budget { bits: 0, chars: 0, other: 0 },
                        max_tokens: 1,
                        offdiag_tokens: 0,
                        max_violations: 20,
                    };
                    replay_case(case, &inst, &cfg, &want_prop, &mut r, &mut st);
                    // parser layers: the message is a JSON object
                    if i % 4 == 0 || *len < 70 || *len > 1000 {
                        let spec = InstSpec { json_msg: true, ..spec };
                        let inst = make_instance(&spec, &pairs, &mut r);
                        let cfg = ReplayCfg { layers: vec![Layer::Generic, Layer::Prelude], ..cfg };
                        replay_case(case, &inst, &cfg, &want_prop, &mut r, &mut st);
                    }
                }
            }
        }
        "C03" => {
            let n_inst = if thorough { 3 } else { 2 };
            for case in cases.iter().copied().filter(|c| !c.unaltered) {
                let is_slow = slow(&case.mint.pr);
                for i in 0..n_inst {
                    let spec = InstSpec {
                        msg_len: [21, 70, 3, 130][i % 4],
                        msg_class: i,
                        json_msg: true,
                        pair_idx: i + st.cases,
                        k2: K2Mode::Random,
                        k1_special: 0,
                        seed_special: 0,
                    };
                    let inst = make_instance(&spec, &pairs, &mut r);
                    let full = thorough || !is_slow;
                    let cfg = ReplayCfg {
                        layers: all_layers.clone(),
                        budget: Budget {
                            bits: if full { usize::MAX } else { 96 },
                            chars: if thorough { 4000 } else if is_slow { 60 } else { 400 },
                            other: if thorough { 64 } else { 12 },
                        },
                        max_tokens: if thorough && is_slow { 2000 } else if thorough { 20000 } else if is_slow { 200 } else { 3000 },
                        offdiag_tokens: if thorough { 40 } else { 6 },
                        max_violations: 20,
                    };
                    replay_case(case, &inst, &cfg, &want_prop, &mut r, &mut st);
                }
            }
        }
        "C04" => {
            for case in cases.iter().copied().filter(|c| c.unaltered) {
                let is_slow = slow(&case.mint.pr);
                let mut modes: Vec<K2Mode> = vec![K2Mode::Zero, K2Mode::Ones];
                let nbits = if thorough || !is_slow { 256 } else { 32 };
                modes.extend((0..nbits).map(|b| K2Mode::BitNeighbour(b * (256 / nbits))));
                modes.extend((0..if thorough { 64 } else { 8 }).map(|_| K2Mode::Random));
                for (i, m) in modes.iter().enumerate() {
                    // every third instance: a raw (non-JSON) message at the core layer, incl. the empty message
                    let raw = i % 3 == 1;
                    let spec = InstSpec {
                        msg_len: [0, 1, 33, 64, 200][i % 5],
                        msg_class: i,
                        json_msg: !raw,
                        pair_idx: i,
                        k2: *m,
                        k1_special: if i % 50 == 3 { 1 } else if i % 50 == 4 { 2 } else { 0 },
                        seed_special: 0,
                    };
                    let inst = make_instance(&spec, &pairs, &mut r);
                    let cfg = ReplayCfg {
                        layers: if i % 8 == 0 && !raw { all_layers.clone() } else { vec![Layer::Core] },
                        budget: Budget { bits: 0, chars: 0, other: 0 },
                        max_tokens: 1,
                        offdiag_tokens: 0,
                        max_violations: 20,
                    };
                    replay_case(case, &inst, &cfg, &want_prop, &mut r, &mut st);
                }
                // public protocols: every single-bit neighbour of the signer's public key bytes (most are not
                // valid keys: refusing the key is a failure to verify, as the property demands); core layer
                if case.mint.pr == "v1.public" {
                    // the signer's RSA key wrapped in bytes that are no key encoding: not the signer's key
                    for variant in 0..24 {
                        let spec = InstSpec { msg_len: 20, msg_class: variant, json_msg: true, pair_idx: variant, k2: K2Mode::PubJunk(variant), k1_special: 0, seed_special: 0 };
                        let inst = make_instance(&spec, &pairs, &mut r);
                        let cfg = ReplayCfg { layers: all_layers.clone(), budget: Budget { bits: 0, chars: 0, other: 0 }, max_tokens: 1, offdiag_tokens: 0, max_violations: 20 };
                        replay_case(case, &inst, &cfg, &want_prop, &mut r, &mut st);
                    }
                }
                if case.mint.pr.ends_with("public") {
                    let nbits = if case.mint.pr.starts_with("v1") { 270 * 8 } else if case.mint.pr.starts_with("v3") { 49 * 8 } else { 32 * 8 };
                    let step = if case.mint.pr.starts_with("v1") { if thorough { 1 } else { 3 } } else if thorough || !is_slow { 1 } else { 4 };
                    for bit in (0..nbits).step_by(step).chain(0..8) {
                        let spec = InstSpec { msg_len: 20, msg_class: bit, json_msg: true, pair_idx: bit, k2: K2Mode::PubBitNeighbour(bit), k1_special: 0, seed_special: 0 };
                        let inst = make_instance(&spec, &pairs, &mut r);
                        let cfg = ReplayCfg { layers: vec![Layer::Core], budget: Budget { bits: 0, chars: 0, other: 0 }, max_tokens: 1, offdiag_tokens: 0, max_violations: 20 };
                        replay_case(case, &inst, &cfg, &want_prop, &mut r, &mut st);
                    }
                }
            }
        }
        "C05" | "C06" | "C07" => {
            if tidx == 0 && prop != "C07" {
                wide_sweep(prop, if thorough { 16384 } else { 2048 }, &mut r, &mut st);
            }
            let n = if thorough { pairs.len() * 2 } else { pairs.len() };
            for case in cases.iter().copied() {
                let relevant_edit = case.edits.iter().any(|e| {
                    (prop == "C05" && (e.k.starts_with("foot-") || e.k == "extra-seg" || e.k == "dot-insert")) || (prop == "C07" && e.k == "relabel")
                });
                if !(case.unaltered || relevant_edit) {
                    continue;
                }
                if prop == "C06" && !(case.mint.pr.starts_with("v3") || case.mint.pr.starts_with("v4")) {
                    continue;
                }
                let is_slow = slow(&case.mint.pr);
                let n_inst = if prop == "C07" { if thorough { 96 } else { 4 } } else if is_slow && !thorough { n / 3 + 1 } else { n };
                for i in 0..n_inst {
                    let raw = i % 4 == 1;
                    let spec = InstSpec {
                        msg_len: [17, 0, 64, 5][i % 4],
                        msg_class: i,
                        json_msg: !raw,
                        pair_idx: i,
                        k2: K2Mode::Random,
                        k1_special: 0,
                        seed_special: 0,
                    };
                    let inst = make_instance(&spec, &pairs, &mut r);
                    let cfg = ReplayCfg {
                        layers: if raw { vec![Layer::Core] } else { all_layers.clone() },
                        budget: Budget { bits: 64, chars: 200, other: 8 },
                        max_tokens: if thorough { 2000 } else { 300 },
                        offdiag_tokens: if thorough { 2000 } else { 300 },
                        max_violations: 20,
                    };
                    replay_case(case, &inst, &cfg, &want_prop, &mut r, &mut st);
                }
            }
        }
        _ => {}
    }
    st
}

fn minted_checks(args: &[String]) -> i32 {
    install_panic_hook();
    let prop = arg(args, "--prop").expect("--prop");
    let tier = arg(args, "--tier").unwrap_or_else(|| "quick".into());
    let seed: u64 = arg(args, "--seed").and_then(|s| s.parse().ok()).unwrap_or(1);
    let out = arg(args, "--out").expect("--out");
    let t0 = Instant::now();
    let m = match prop.as_str() {
        "C06" => minted::hidden_assertion(seed, tier == "thorough"),
        _ => minted::footer_segment(seed, tier == "thorough"),
    };
    let s = json!({"prop": prop, "evaluations": m.evaluations, "violations": m.violations, "rule": m.rule,
                   "wall_s": t0.elapsed().as_secs_f64()});
    std::fs::write(&out, serde_json::to_string_pretty(&s).unwrap()).expect("write");
    if m.violations.is_empty() { 0 } else { 1 }
}

/// pv run-builder --behaviours F --family c13|c14|c17 --tier T --seed N --out trace.ndjson
/// Replays every behaviour on the protocols the tier selects; writes one NDJSON line per
/// (behaviour, protocol, instance) with the observations.
fn run_builder_cmd(args: &[String]) -> i32 {
    use std::io::Write;
    install_panic_hook();
    let path = arg(args, "--behaviours").expect("--behaviours");
    let tier = arg(args, "--tier").unwrap_or_else(|| "quick".into());
    let seed: u64 = arg(args, "--seed").and_then(|s| s.parse().ok()).unwrap_or(1);
    let out = arg(args, "--out").expect("--out");
    let thorough = tier == "thorough";
    let text = std::fs::read_to_string(&path).expect("behaviours");
    let behs: Vec<builder_run::Beh> = text.lines().filter(|l| !l.trim().is_empty())
        .map(|l| serde_json::from_str(l).expect("behaviour line")).collect();
    let chunks: Vec<(Vec<String>, Vec<Vec<u8>>)> = std::thread::scope(|sc| {
        let mut hs = vec![];
        for t in 0..THREADS {
            let behs = &behs;
            hs.push(sc.spawn(move || {
                let mut r = conc::rng(seed, &format!("builder-{}", t));
                let mut book = builder_run::NonceBook::default();
                let mut lines: Vec<String> = vec![];
                for (i, beh) in behs.iter().enumerate().filter(|(i, _)| i % THREADS == t) {
                    if beh.ops.iter().any(|o| o.op == "tick") {
                        continue;
                    }
                    let nbuild = beh.ops.iter().filter(|o| o.op == "build").count();
                    for pr in Proto::all() {
                        // v4.local / v4.public carry every history; the other six protocols
                        // (same builder code, different final call) the short ones
                        let full = pr.v == 4 || thorough;
                        let slow = pr.public && (pr.v == 1 || pr.v == 3);
                        if !full && beh.ops.len() > if slow { 3 } else { 4 } {
                            continue;
                        }
                        if slow && thorough && beh.ops.len() > 4 && i % 8 != 0 {
                            continue;
                        }
                        let _ = nbuild;
                        let mut inst = builder_run::make_binst(&mut r, i + pr.v as usize);
                        if beh.layer == "generic" && i % 11 == 7 {
                            builder_run::timekey_variant(&mut inst);
                        }
                        let km = conc::random_keymat(&mut r, i);
                        let ops = builder_run::run_behaviour(pr, beh, &inst, &km, &mut book);
                        lines.push(json!({"id": format!("{}:{}", i, pr.name()), "layer": beh.layer, "pr": pr.name(), "ops": ops}).to_string());
                    }
                }
                (lines, book.seen.into_keys().collect::<Vec<Vec<u8>>>())
            }));
        }
        hs.into_iter().map(|h| h.join().expect("thread")).collect::<Vec<_>>()
    });
    // nonces drawn concurrently on different threads must be distinct as well (C10)
    let mut all_nonces: std::collections::HashSet<Vec<u8>> = std::collections::HashSet::new();
    let mut total_nonces = 0usize;
    let mut chunks: Vec<Vec<String>> = chunks
        .into_iter()
        .map(|(l, n)| {
            total_nonces += n.len();
            all_nonces.extend(n);
            l
        })
        .collect();
    if total_nonces > 0 {
        chunks.push(vec![json!({"id": "cross-thread", "layer": "xthread", "pr": "all", "total": total_nonces, "distinct": all_nonces.len(), "ops": []}).to_string()]);
    }
    let family = arg(args, "--family").unwrap_or_else(|| "c17".into());
    // histories in which time passes (op "tick"): one thread per (history, protocol) - they mostly sleep
    if family == "c13t" {
        let extra: Vec<String> = std::thread::scope(|sc| {
            let mut hs = vec![];
            for (i, beh) in behs.iter().enumerate() {
                if !beh.ops.iter().any(|o| o.op == "tick") || beh.ops.iter().filter(|o| o.op == "tick").count() > 2 {
                    continue;
                }
                for pr in [Proto::new(4, "local"), Proto::new(4, "public"), Proto::new(2, "local"), Proto::new(3, "public")] {
                    hs.push(sc.spawn(move || {
                        let mut r = conc::rng(seed, &format!("builder-tick-{}-{}", i, pr.name()));
                        let mut book = builder_run::NonceBook::default();
                        let inst = builder_run::make_binst(&mut r, i);
                        let km = conc::random_keymat(&mut r, i);
                        let ops = builder_run::run_behaviour(pr, beh, &inst, &km, &mut book);
                        json!({"id": format!("t{}:{}", i, pr.name()), "layer": beh.layer, "pr": pr.name(), "ops": ops}).to_string()
                    }));
                }
            }
            hs.into_iter().map(|h| h.join().expect("thread")).collect()
        });
        chunks = vec![extra];
    }
    // random long histories (implementation -> specification direction)
    let n_random: usize = arg(args, "--random").and_then(|s| s.parse().ok()).unwrap_or(0);
    let maxlen: usize = arg(args, "--maxlen").and_then(|s| s.parse().ok()).unwrap_or(40);
    if n_random > 0 {
        let extra: Vec<Vec<String>> = std::thread::scope(|sc| {
            let mut hs = vec![];
            for t in 0..THREADS {
                let family = family.clone();
                hs.push(sc.spawn(move || {
                    let mut r = conc::rng(seed, &format!("builder-random-{}", t));
                    let mut book = builder_run::NonceBook::default();
                    let mut lines = vec![];
                    for i in (0..n_random).filter(|i| i % THREADS == t) {
                        let beh = builder_run::random_behaviour(&mut r, &family, maxlen);
                        let protos = Proto::all();
                        let pr = if i % 3 == 0 { protos[i / 3 % 8] } else { Proto::new(4, if i % 2 == 0 { "local" } else { "public" }) };
                        let mut inst = builder_run::make_binst(&mut r, i);
                        if beh.layer == "generic" && i % 11 == 7 {
                            builder_run::timekey_variant(&mut inst);
                        }
                        let km = conc::random_keymat(&mut r, i);
                        let ops = builder_run::run_behaviour(pr, &beh, &inst, &km, &mut book);
                        lines.push(json!({"id": format!("r{}:{}", i, pr.name()), "layer": beh.layer, "pr": pr.name(), "ops": ops}).to_string());
                    }
                    lines
                }));
            }
            hs.into_iter().map(|h| h.join().expect("thread")).collect()
        });
        chunks.extend(extra);
    }
    // C10: many builds under one key, with per-bit statistics of the nonces
    let n_nonce: usize = arg(args, "--nonce").and_then(|s| s.parse().ok()).unwrap_or(0);
    if n_nonce > 0 {
        let extra: Vec<Vec<String>> = std::thread::scope(|sc| {
            let mut hs = vec![];
            for (t, pr) in Proto::all().into_iter().filter(|p| !p.public).enumerate() {
                for layer in ["generic", "prelude"] {
                    hs.push(sc.spawn(move || builder_run::nonce_drive(pr, layer, n_nonce, seed + t as u64)));
                }
            }
            hs.into_iter().map(|h| h.join().expect("thread")).collect()
        });
        chunks.extend(extra);
    }
    let mut f = std::io::BufWriter::new(std::fs::File::create(&out).expect("out"));
    let mut n = 0;
    for c in chunks {
        for l in c {
            writeln!(f, "{}", l).unwrap();
            n += 1;
        }
    }
    println!("{}", n);
    0
}

/// pv run-parser --behaviours F --toks T --family c15|c16|c11 --tier T --seed N --out trace.ndjson
fn run_parser_cmd(args: &[String]) -> i32 {
    use std::io::Write;
    install_panic_hook();
    let path = arg(args, "--behaviours").expect("--behaviours");
    let toks_path = arg(args, "--toks").expect("--toks");
    let family = arg(args, "--family").unwrap_or_else(|| "c15".into());
    let tier = arg(args, "--tier").unwrap_or_else(|| "quick".into());
    let seed: u64 = arg(args, "--seed").and_then(|s| s.parse().ok()).unwrap_or(1);
    let out = arg(args, "--out").expect("--out");
    let thorough = tier == "thorough";
    let table: Vec<parser_run::TokRec> = serde_json::from_str(&std::fs::read_to_string(&toks_path).expect("toks")).expect("toks json");
    let text = std::fs::read_to_string(&path).expect("behaviours");
    let behs: Vec<parser_run::PBeh> = text.lines().filter(|l| !l.trim().is_empty())
        .map(|l| serde_json::from_str(l).expect("behaviour line")).collect();
    let all_protos = args.iter().any(|a| a == "--all-protos");
    let sweep: usize = arg(args, "--sweep-stride").and_then(|s| s.parse().ok()).unwrap_or(0);
    if family == "c11t" {
        // histories in which time passes: every (history, protocol) on its own thread - they mostly sleep
        let lines: Vec<String> = std::thread::scope(|sc| {
            let mut hs = vec![];
            for (i, beh) in behs.iter().enumerate() {
                for pr in Proto::all() {
                    let table = &table;
                    hs.push(sc.spawn(move || {
                        let mut r = conc::rng(seed, &format!("parser-c11t-{}-{}", i, pr.name()));
                        let inst = parser_run::make_pinst(&mut r, i + pr.v as usize);
                        let base = (i * 7919 + pr.v as usize * 104729) % parser_run::RENDERINGS;
                        let tsel = move |j: usize| (base + j * 6151) % parser_run::RENDERINGS;
                        parser_run::run_pbehaviour(&format!("t{}:{}", i, pr.name()), pr, beh, table, &inst, &tsel, &mut r).to_string()
                    }));
                }
            }
            hs.into_iter().map(|h| h.join().expect("thread")).collect()
        });
        let mut f = std::io::BufWriter::new(std::fs::File::create(&out).expect("out"));
        let mut side = std::io::BufWriter::new(std::fs::File::create(format!("{}.conc", out)).expect("out"));
        for l in &lines {
            let mut v: Value = serde_json::from_str(l).unwrap();
            let conc = v.as_object_mut().unwrap().remove("conc").unwrap_or(Value::Null);
            writeln!(f, "{}", v).unwrap();
            writeln!(side, "{}", conc.as_str().unwrap_or("")).unwrap();
        }
        println!("{}", lines.len());
        return 0;
    }
    let chunks: Vec<Vec<String>> = std::thread::scope(|sc| {
        let mut hs = vec![];
        for t in 0..THREADS {
            let behs = &behs;
            let table = &table;
            let family = family.clone();
            hs.push(sc.spawn(move || {
                let mut r = conc::rng(seed, &format!("parser-{}-{}", family, t));
                let mut lines = vec![];
                for (i, beh) in behs.iter().enumerate().filter(|(i, _)| i % THREADS == t) {
                    for pr in Proto::all() {
                        if family.starts_with("c05") && !pr.has_assertion() {
                            // footer / assertion histories: the protocols that have implicit assertions
                            continue;
                        }
                        let slow = pr.public && (pr.v == 1 || pr.v == 3);
                        // v4.local / v4.public carry every history; the other six protocols (same parser
                        // code, different core call) a sample
                        let stride = match (pr.v == 4, thorough, slow) {
                            (true, _, _) => 1,
                            (false, true, false) => 3,
                            (false, true, true) => 12,
                            (false, false, false) => 6,
                            (false, false, true) => 16,
                        };
                        if i % stride != 0 && !all_protos {
                            continue;
                        }
                        let mut inst = parser_run::make_pinst(&mut r, i + pr.v as usize * 3 + pr.public as usize);
                        if beh.layer == "generic" && family.starts_with("c16") && i % 7 == 3 {
                            parser_run::timekey_names(&mut inst);
                        }
                        if i % 9 == 5 {
                            parser_run::wrapper_values(&mut inst);
                        }
                        let base = (i * 7919 + pr.v as usize * 104729) % parser_run::RENDERINGS;
                        let tsel = move |j: usize| (base + j * 6151) % parser_run::RENDERINGS;
                        let line = parser_run::run_pbehaviour(&format!("{}:{}", i, pr.name()), pr, beh, table, &inst, &tsel, &mut r);
                        lines.push(line.to_string());
                    }
                }
                // C11 / C12: the rendering space of past / future instants, 100 parses per parser object
                if family == "c11" && sweep > 0 {
                    let combos: [(&str, &str); 8] = [("past", "absent"), ("future", "absent"), ("absent", "past"), ("absent", "future"),
                                                     ("future", "past"), ("past", "past"), ("future", "future"), ("past", "future")];
                    for pr in Proto::all() {
                        let stride = if pr.v == 4 && !pr.public { sweep } else { sweep * 64 };
                        let slow = pr.public && (pr.v == 1 || pr.v == 3);
                        let stride = if slow { stride * 4 } else { stride };
                        for (ci, (e, n)) in combos.iter().enumerate() {
                            let sels: Vec<usize> = (0..parser_run::RENDERINGS).step_by(stride).collect();
                            for (bi, block) in sels.chunks(100).enumerate() {
                                if bi % THREADS != t {
                                    continue;
                                }
                                let mut tbl: Vec<parser_run::TokRec> = vec![];
                                let mut ops = vec![];
                                for (j, _) in block.iter().enumerate() {
                                    let mut claims = vec![];
                                    if *e != "absent" { claims.push(("exp".to_string(), e.to_string())); }
                                    if *n != "absent" { claims.push(("nbf".to_string(), n.to_string())); }
                                    tbl.push(parser_run::TokRec { f: "none".into(), a: "none".into(), k: "k1".into(), edit: "none".into(), json: true, claims });
                                    ops.push(parser_run::POpRec { op: "parse".into(), k: "k1".into(), v: "".into(), t: j + 1 });
                                }
                                let beh = parser_run::PBeh { layer: "prelude".into(), ops };
                                let inst = parser_run::make_pinst(&mut r, bi);
                                let blk: Vec<usize> = block.to_vec();
                                let off = ci * 13;
                                let tsel = move |j: usize| (blk[j] + off) % parser_run::RENDERINGS;
                                let line = parser_run::run_pbehaviour(&format!("s{}-{}:{}", ci, bi, pr.name()), pr, &beh, &tbl, &inst, &tsel, &mut r);
                                lines.push(line.to_string());
                            }
                        }
                    }
                }
                lines
            }));
        }
        hs.into_iter().map(|h| h.join().expect("thread")).collect()
    });
    let mut f = std::io::BufWriter::new(std::fs::File::create(&out).expect("out"));
    let mut side = std::io::BufWriter::new(std::fs::File::create(format!("{}.conc", out)).expect("out"));
    let mut n = 0;
    for c in chunks {
        for l in c {
            // the concrete tokens / values go to a side file with the same line order
            let mut v: Value = serde_json::from_str(&l).unwrap();
            let conc = v.as_object_mut().unwrap().remove("conc").unwrap_or(Value::Null);
            writeln!(f, "{}", v).unwrap();
            writeln!(side, "{}", conc.as_str().unwrap_or("")).unwrap();
            n += 1;
        }
    }
    println!("{}", n);
    0
}

/// pv replay-shapes --shapes F --hex F --tier T --seed N --out summary.json
fn replay_shapes_cmd(args: &[String]) -> i32 {
    install_panic_hook();
    let path = arg(args, "--shapes").expect("--shapes");
    let hex_path = arg(args, "--hex").expect("--hex");
    let tier = arg(args, "--tier").unwrap_or_else(|| "quick".into());
    let seed: u64 = arg(args, "--seed").and_then(|s| s.parse().ok()).unwrap_or(1);
    let out = arg(args, "--out").expect("--out");
    let thorough = tier == "thorough";
    let t0 = Instant::now();
    let text = std::fs::read_to_string(&path).expect("shapes");
    let sh: Vec<shapes::Shape> = text.lines().filter(|l| !l.trim().is_empty()).map(|l| serde_json::from_str(l).expect("shape")).collect();
    let hex: Vec<shapes::HexCase> = serde_json::from_str(&std::fs::read_to_string(&hex_path).expect("hex")).expect("hex json");
    let mut total = shapes::SOut::default();
    std::thread::scope(|sc| {
        let mut hs = vec![];
        for t in 0..THREADS {
            let sh = &sh;
            hs.push(sc.spawn(move || shapes::run_shapes(sh, t, THREADS, seed, thorough)));
        }
        let fz = sc.spawn(move || shapes::run_fuzz(seed, thorough));
        for h in hs {
            total.merge(h.join().expect("thread"));
        }
        total.merge(fz.join().expect("fuzz"));
    });
    let hx = shapes::run_hex(&hex, seed);
    let hex_n = hx.evaluations;
    total.merge(hx);
    let s = json!({"prop": "C09", "shapes": total.shapes, "evaluations": total.evaluations, "distinct": total.distinct,
                   "hex_cases": hex_n, "nviol": total.nviol, "violations": total.violations, "samples": total.samples,
                   "wall_s": t0.elapsed().as_secs_f64()});
    std::fs::write(&out, serde_json::to_string_pretty(&s).unwrap()).expect("write");
    if total.nviol > 0 { 1 } else { 0 }
}

/// pv eval-terms --terms F --vectors F --tier T --seed N --out summary.json
fn eval_terms_cmd(args: &[String]) -> i32 {
    install_panic_hook();
    let terms_path = arg(args, "--terms").expect("--terms");
    let vec_path = arg(args, "--vectors").expect("--vectors");
    let tier = arg(args, "--tier").unwrap_or_else(|| "quick".into());
    let seed: u64 = arg(args, "--seed").and_then(|s| s.parse().ok()).unwrap_or(1);
    let out = arg(args, "--out").expect("--out");
    let t0 = Instant::now();
    let terms: Vec<Value> = serde_json::from_str(&std::fs::read_to_string(&terms_path).expect("terms")).expect("terms json");
    let vectors: Vec<Value> = serde_json::from_str(&std::fs::read_to_string(&vec_path).expect("vectors")).expect("vectors json");
    let pinned = match c08::pin(&terms, &vectors) {
        Ok(n) => n,
        Err(e) => {
            eprintln!("PIN-FAILURE: the term evaluator does not reproduce the official vectors: {}", e);
            return 3;
        }
    };
    let mut r = c08::sweep(&terms, seed, tier == "thorough");
    c08::library_vs_vectors(&vectors, &mut r);
    let s = json!({"prop": "C08", "pinned_vectors": pinned, "evaluations": r.evaluations, "distinct": r.distinct, "nviol": r.nviol,
                   "violations": r.violations, "samples": r.samples, "wall_s": t0.elapsed().as_secs_f64()});
    std::fs::write(&out, serde_json::to_string_pretty(&s).unwrap()).expect("write");
    if r.nviol > 0 { 1 } else { 0 }
}

/// pv replay-claims --cases F(json with keys/deco/time/typed) --tier T --seed N --out summary.json
fn replay_claims_cmd(args: &[String]) -> i32 {
    install_panic_hook();
    let path = arg(args, "--cases").expect("--cases");
    let tier = arg(args, "--tier").unwrap_or_else(|| "quick".into());
    let seed: u64 = arg(args, "--seed").and_then(|s| s.parse().ok()).unwrap_or(1);
    let out = arg(args, "--out").expect("--out");
    let t0 = Instant::now();
    let c: Value = serde_json::from_str(&std::fs::read_to_string(&path).expect("cases")).expect("cases json");
    let empty = vec![];
    let r = claims_replay::run(c["keys"].as_object().expect("keys"), c["deco"].as_array().unwrap_or(&empty),
                               c["time"].as_array().unwrap_or(&empty), c["typed"].as_array().unwrap_or(&empty), seed, tier == "thorough");
    let s = json!({"prop": "C18", "evaluations": r.evaluations, "distinct": r.distinct, "nviol": r.nviol, "violations": r.violations,
                   "samples": r.samples, "wall_s": t0.elapsed().as_secs_f64()});
    std::fs::write(&out, serde_json::to_string_pretty(&s).unwrap()).expect("write");
    if r.nviol > 0 { 1 } else { 0 }
}

/// pv run-coreobj --behaviours F --tier T --seed N --out trace.ndjson
/// Executes every call history of MC_CoreObj on one real Paseto<V,P> builder object per
/// (history, protocol) and reads every minted token back under a matrix of presentations.
fn run_coreobj_cmd(args: &[String]) -> i32 {
    use std::io::Write;
    install_panic_hook();
    let path = arg(args, "--behaviours").expect("--behaviours");
    let tier = arg(args, "--tier").unwrap_or_else(|| "quick".into());
    let seed: u64 = arg(args, "--seed").and_then(|s| s.parse().ok()).unwrap_or(1);
    let out = arg(args, "--out").expect("--out");
    let thorough = tier == "thorough";
    // with --terms (C08): every minted text is also compared with the specification's token (term evaluator)
    let terms: Option<Vec<Value>> = arg(args, "--terms").map(|p| serde_json::from_str(&std::fs::read_to_string(&p).expect("terms")).expect("terms json"));
    let terms = &terms;
    let text = std::fs::read_to_string(&path).expect("behaviours");
    let behs: Vec<Value> = text.lines().filter(|l| !l.trim().is_empty()).map(|l| serde_json::from_str(l).expect("line")).collect();
    let chunks: Vec<Vec<String>> = std::thread::scope(|sc| {
        let mut hs = vec![];
        for t in 0..THREADS {
            let behs = &behs;
            hs.push(sc.spawn(move || {
                let mut r = conc::rng(seed, &format!("coreobj-{}", t));
                let mut lines = vec![];
                for (i, beh) in behs.iter().enumerate().filter(|(i, _)| i % THREADS == t) {
                    for pr in Proto::all() {
                        let slow = pr.public && (pr.v == 1 || pr.v == 3);
                        if !thorough && pr.v != 4 && i % if slow { 24 } else { 6 } != 0 {
                            continue;
                        }
                        if thorough && slow && i % 4 != 0 {
                            continue;
                        }
                        let kms = vec![conc::random_keymat(&mut r, i), conc::random_keymat(&mut r, i + 1)];
                        let msgs = [conc::json_message(&mut r, 5 + i % 60, i), conc::json_message(&mut r, 7 + i % 50, i + 1)];
                        let pairs = [("kid-1", "assert-1"), ("é", "a"), ("{\"kid\":1}", "x".repeat(130).leak() as &str)];
                        let (f1, a1) = pairs[i % 3];
                        let seeds = [conc::random_bytes32(&mut r), conc::random_bytes32(&mut r)];
                        let conc_of = |name: &str| -> String {
                            match name { "m1" => msgs[0].clone(), "m2" => msgs[1].clone(), "f1" => f1.to_string(), "a1" => a1.to_string(), _ => String::new() }
                        };
                        let mut cops = vec![COp::Payload(msgs[0].clone())];
                        let ops = beh["ops"].as_array().unwrap();
                        for o in ops {
                            let v = o["v"].as_str().unwrap_or("");
                            match o["op"].as_str().unwrap_or("") {
                                "payload" => cops.push(COp::Payload(conc_of(v))),
                                "footer" => cops.push(COp::Footer(conc_of(v))),
                                "assertion" => cops.push(COp::Assertion(conc_of(v))),
                                "clone" => cops.push(COp::CloneObj),
                                "mint" => cops.push(COp::Mint { key: 0, seed: if o["s"] == "s2" { seeds[1] } else { seeds[0] } }),
                                _ => {}
                            }
                        }
                        let outs = run_core_object(pr, &cops, &kms);
                        let mut outs = outs.into_iter();
                        let mut ops_json = vec![];
                        for o in ops {
                            if o["op"] != "mint" {
                                ops_json.push(o.clone());
                                continue;
                            }
                            let mut oj = o.clone();
                            match outs.next().unwrap_or(Out::Panic("missing".into())) {
                                Out::Ok(tok) => {
                                    // read back under {k1,k2} x {none, f1, empty} x {none, a1, empty}
                                    let mut reads = vec![];
                                    for (kn, km) in [("k1", &kms[0]), ("k2", &kms[1])] {
                                        for fname in ["none", "f1", "empty"] {
                                            for aname in ["none", "a1", "empty"] {
                                                if !pr.has_assertion() && aname != "none" {
                                                    continue;
                                                }
                                                if kn == "k2" && (fname == "empty" || aname == "empty") {
                                                    continue;
                                                }
                                                let f = match fname { "none" => None, "empty" => Some(""), _ => Some(f1) };
                                                let a = match aname { "none" => None, "empty" => Some(""), _ => Some(a1) };
                                                let res = core_present(pr, &tok, km, f, a);
                                                let (rc, msg) = match &res {
                                                    Out::Ok(m) if *m == msgs[0] => ("ok".to_string(), "m1"),
                                                    Out::Ok(m) if *m == msgs[1] => ("ok".to_string(), "m2"),
                                                    Out::Ok(_) => ("ok".to_string(), "other"),
                                                    o => (o.class().to_string(), ""),
                                                };
                                                reads.push(json!({"k": kn, "f": fname, "a": aname, "res": rc, "msg": msg}));
                                            }
                                        }
                                    }
                                    oj["res"] = json!("ok");
                                    oj["reads"] = json!(reads);
                                    // C08 / C05: the footer segment of the minted text (present iff the footer is non-empty)
                                    let segs: Vec<&str> = tok.split('.').collect();
                                    let fseg = if segs.len() == 3 {
                                        "none".to_string()
                                    } else if segs.len() == 4 {
                                        match edits::unb64(segs[3]) {
                                            Some(d) if d.is_empty() => "emptyseg".to_string(),
                                            Some(d) if d == f1.as_bytes() && edits::b64(&d) == segs[3] => "f1".to_string(),
                                            _ => "other".to_string(),
                                        }
                                    } else {
                                        format!("{}-segments", segs.len())
                                    };
                                    oj["fseg"] = json!(fseg);
                                    if let Some(ts) = terms {
                                        let sd = if o["s"] == "s2" { &seeds[1] } else { &seeds[0] };
                                        oj["specof"] = json!(c08::spec_of(ts, pr, &tok, &kms[0], sd, &msgs, f1, a1));
                                    }

                                }
                                o => {
                                    oj["res"] = json!(format!("{}:{}", o.class(), o.detail()));
                                    oj["reads"] = json!([]);
                                }
                            }
                            ops_json.push(oj);
                        }
                        lines.push(json!({"id": format!("{}:{}", i, pr.name()), "pr": pr.name(), "ops": ops_json}).to_string());
                    }
                }
                lines
            }));
        }
        hs.into_iter().map(|h| h.join().expect("thread")).collect()
    });
    let mut f = std::io::BufWriter::new(std::fs::File::create(&out).expect("out"));
    let mut n = 0;
    for c in chunks {
        for l in c {
            writeln!(f, "{}", l).unwrap();
            n += 1;
        }
    }
    println!("{}", n);
    0
}

fn main() {
    let args: Vec<String> = std::env::args().collect();
    let code = match args.get(1).map(|s| s.as_str()) {
        Some("smoke") => smoke(),
        Some("replay-core") => replay_core(&args),
        Some("minted-checks") => minted_checks(&args),
        Some("run-builder") => run_builder_cmd(&args),
        Some("run-parser") => run_parser_cmd(&args),
        Some("run-coreobj") => run_coreobj_cmd(&args),
        Some("replay-shapes") => replay_shapes_cmd(&args),
        Some("eval-terms") => eval_terms_cmd(&args),
        Some("replay-claims") => replay_claims_cmd(&args),
        _ => {
            eprintln!("usage: pv <smoke|replay-core> ...");
            2
        }
    };
    std::process::exit(code);
}
