//! Direct observations on produced tokens that complement the replay of MC_Core:
//!  C05/C08: the 4th segment of every produced token is exactly the unpadded base64url
//!           of the footer (checked with an independently written encoder) and is
//!           present iff the footer is non-empty (the model's `FooterSeg` invariant);
//!  C06:     the implicit assertion is never stored (the model's `Hidden` invariant):
//!           the token length does not depend on it and its bytes do not occur.

use crate::api::*;
use crate::conc;
use crate::edits::{b64_independent, unb64};
use rand::Rng;
use serde_json::{json, Value};

pub struct MOut {
    pub evaluations: usize,
    pub violations: Vec<Value>,
    pub rule: String,
}

fn mint_layer(pr: Proto, layer: Layer, km: &KeyMat, nonce: &[u8; 32], msg: &str, f: Option<&str>, a: Option<&str>) -> Out<String> {
    match layer {
        Layer::Core => core_mint(pr, km, nonce, msg, f, a),
        _ => {
            let mut ops = vec![BOp::SetClaim { key: "data".into(), value: json!(msg), via: Via::Typed }];
            if let Some(f) = f {
                ops.push(BOp::SetFooter(f.to_string()));
            }
            if let Some(a) = a {
                ops.push(BOp::SetAssertion(a.to_string()));
            }
            ops.push(BOp::Build);
            run_builder(pr, layer, &ops, km).into_iter().next().unwrap()
        }
    }
}

pub fn footer_segment(seed: u64, thorough: bool) -> MOut {
    let mut r = conc::rng(seed, "footer-seg");
    let pairs = conc::string_pairs(&mut r, if thorough { 200 } else { 24 });
    let mut footers: Vec<Option<String>> = vec![None, Some(String::new())];
    for (a, b) in &pairs {
        footers.push(Some(a.clone()));
        footers.push(Some(b.clone()));
    }
    for l in 1..=(if thorough { 70 } else { 20 }) {
        footers.push(Some(conc::message(&mut r, l, l)));
    }
    let mut out = MOut { evaluations: 0, violations: vec![], rule: String::new() };
    for pr in Proto::all() {
        let slow = pr.public && (pr.v == 1 || pr.v == 3);
        for layer in [Layer::Core, Layer::Generic, Layer::Prelude] {
            for (i, f) in footers.iter().enumerate() {
                if slow && !thorough && i % 4 != 0 && i > 4 {
                    continue;
                }
                let km = conc::random_keymat(&mut r, i);
                let nonce = conc::random_bytes32(&mut r);
                let a = if pr.has_assertion() && i % 3 == 0 { Some("assertion") } else { None };
                let tok = mint_layer(pr, layer, &km, &nonce, "{\"x\":1}", f.as_deref(), a);
                out.evaluations += 1;
                let tok = match tok {
                    Out::Ok(t) => t,
                    o => {
                        out.violations.push(json!({"props": ["C05"], "what": format!("mint failed {}:{}", o.class(), o.detail()),
                            "replay": {"kind": "footer-seg", "pr": pr.name(), "layer": layer.name(), "footer": f}}));
                        continue;
                    }
                };
                let segs: Vec<&str> = tok.split('.').collect();
                let fbytes = f.clone().unwrap_or_default();
                let expect_seg = !fbytes.is_empty();
                let ok = if expect_seg {
                    segs.len() == 4 && segs[3] == b64_independent(fbytes.as_bytes())
                } else {
                    segs.len() == 3
                };
                if !ok {
                    out.violations.push(json!({"props": ["C05", "C08"],
                        "what": format!("footer segment of the produced token is not base64url(footer) / presence is wrong: {} segments, last={:?}, expected {:?}",
                                        segs.len(), segs.last(), if expect_seg { Some(b64_independent(fbytes.as_bytes())) } else { None }),
                        "replay": {"kind": "footer-seg", "pr": pr.name(), "layer": layer.name(), "footer": f, "token": tok}}));
                }
            }
        }
    }
    out.rule = format!("every protocol x layer x {} footers (none, empty, prefix/extension/case/last-char pairs, lengths 1..N, non-ASCII, 1 KiB): 4th segment == independently computed base64url(footer), present iff footer non-empty", footers.len());
    out
}

fn contains(hay: &[u8], needle: &[u8]) -> bool {
    !needle.is_empty() && hay.windows(needle.len()).any(|w| w == needle)
}

pub fn hidden_assertion(seed: u64, thorough: bool) -> MOut {
    let mut r = conc::rng(seed, "hidden");
    let mut out = MOut { evaluations: 0, violations: vec![], rule: String::new() };
    let n = if thorough { 200 } else { 24 };
    for pr in Proto::all().into_iter().filter(|p| p.has_assertion()) {
        for layer in [Layer::Core, Layer::Generic, Layer::Prelude] {
            for i in 0..n {
                if pr.public && pr.v == 3 && !thorough && i % 3 != 0 {
                    continue;
                }
                let km = conc::random_keymat(&mut r, i);
                let nonce = conc::random_bytes32(&mut r);
                let msg = conc::message(&mut r, [0usize, 5, 40, 100][i % 4], 0);
                let footer = if i % 2 == 0 { Some("kid-7") } else { None };
                // a random assertion of >= 16 bytes: a chance occurrence in the token has probability < 2^-100
                let alen = [16usize, 17, 18, 33, 64, 1024][i % 6];
                let a: String = (0..alen).map(|_| (b'a' + r.gen_range(0..26u8)) as char).collect();
                let base = mint_layer(pr, layer, &km, &nonce, &msg, footer, None);
                let with = mint_layer(pr, layer, &km, &nonce, &msg, footer, Some(&a));
                let with_empty = mint_layer(pr, layer, &km, &nonce, &msg, footer, Some(""));
                out.evaluations += 3;
                let (base, with, with_empty) = match (base, with, with_empty) {
                    (Out::Ok(b), Out::Ok(w), Out::Ok(e)) => (b, w, e),
                    _ => {
                        out.violations.push(json!({"props": ["C06"], "what": "mint failed",
                            "replay": {"kind": "hidden", "pr": pr.name(), "layer": layer.name()}}));
                        continue;
                    }
                };
                let mut bad: Vec<String> = vec![];
                // prelude tokens carry timestamps whose rendering length may vary between two builds
                if layer != Layer::Prelude && (base.len() != with.len() || base.len() != with_empty.len()) {
                    bad.push(format!("token length depends on the assertion: {} / {} / {}", base.len(), with.len(), with_empty.len()));
                }
                let segs: Vec<&str> = with.split('.').collect();
                let expect_segs = if footer.is_some() { 4 } else { 3 };
                if segs.len() != expect_segs {
                    bad.push(format!("{} segments", segs.len()));
                }
                let ab = a.as_bytes();
                if contains(with.as_bytes(), ab) {
                    bad.push("assertion text occurs in the token".into());
                }
                for off in 0..3 {
                    // any of the three base64 alignments of the assertion (inner characters only)
                    let mut padded = vec![0u8; off];
                    padded.extend_from_slice(ab);
                    let enc = b64_independent(&padded);
                    let inner = &enc[(if off == 0 { 0 } else { 4 })..enc.len() - 4];
                    if inner.len() >= 12 && with.contains(inner) {
                        bad.push(format!("base64 of the assertion (alignment {}) occurs in the token", off));
                    }
                }
                for s in segs.iter().skip(2) {
                    if let Some(d) = unb64(s) {
                        if contains(&d, ab) {
                            bad.push("assertion bytes occur in a decoded segment".into());
                        }
                    }
                }
                // the assertion must still bind: the token verifies with it and not without it
                let (ok_with, _) = present(pr, Layer::Core, &with, &km, footer, Some(&a));
                let (ok_without, _) = present(pr, Layer::Core, &with, &km, footer, None);
                out.evaluations += 2;
                if layer == Layer::Core {
                    if !ok_with.is_ok() {
                        bad.push(format!("token does not verify with its assertion: {}", ok_with.detail()));
                    }
                    if ok_without.is_ok() {
                        bad.push("token verifies without its assertion".into());
                    }
                }
                for b in bad {
                    out.violations.push(json!({"props": ["C06"], "what": b,
                        "replay": {"kind": "hidden", "pr": pr.name(), "layer": layer.name(), "assertion": a,
                                   "footer": footer, "message": msg, "token_with": with, "token_without": base}}));
                }
            }
        }
    }
    out.rule = format!("v3/v4 x local/public x 3 layers x {} instances: same key/nonce/message/footer minted with no, empty and a random >=16-byte assertion: equal token lengths (core/generic), assertion bytes and all base64 alignments absent from the token text and decoded segments", n);
    out
}
