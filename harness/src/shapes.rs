//! C09: replay of the shapes enumerated by MC_Shapes (every decoded payload length,
//! segment count, header, canonical / non-canonical payload, footer segment) against all
//! 24 entry points, plus prefixes of authentic tokens, arbitrary Unicode, huge inputs,
//! and the key-from-hex constructor.  Prediction of the specification: always an error
//! of the authentication/format class - never Ok, never a panic.

use crate::api::*;
use crate::conc;
use crate::edits::b64;
use rand::rngs::StdRng;
use rand::Rng;
use rusty_paseto::prelude::Key;
use serde::Deserialize;
use serde_json::{json, Value};
use std::panic::{catch_unwind, AssertUnwindSafe};

#[derive(Deserialize, Clone, Debug)]
pub struct Shape {
    pub h: String,
    pub n: usize,
    pub l: usize,
    pub c: bool,
    pub f: String,
}

#[derive(Deserialize, Clone, Debug)]
pub struct HexCase {
    pub n: usize,
    pub len: usize,
    pub hex: bool,
    pub exp: String,
}

#[derive(Default)]
pub struct SOut {
    pub evaluations: usize,
    pub shapes: usize,
    pub distinct: usize,
    pub violations: Vec<Value>,
    pub nviol: usize,
    pub samples: Vec<Value>,
}

impl SOut {
    pub fn merge(&mut self, o: SOut) {
        self.evaluations += o.evaluations;
        self.shapes += o.shapes;
        self.distinct += o.distinct;
        self.nviol += o.nviol;
        for v in o.violations {
            if self.violations.len() < 30 {
                self.violations.push(v);
            }
        }
        for v in o.samples {
            if self.samples.len() < 6 {
                self.samples.push(v);
            }
        }
    }
}

const F1: &str = "kid-1";
const F2: &str = "kid-2";

pub fn shape_text(s: &Shape, fill: u8, r: &mut StdRng) -> String {
    let hdr: String = if s.h == "bad" {
        ["v5.local", "v0.public", "x.y", "V4.local", "v4.loca", ".", "v4."][r.gen_range(0..7)].to_string()
    } else {
        s.h.clone()
    };
    let bytes: Vec<u8> = match fill {
        0 => vec![0u8; s.l],
        1 => vec![0xffu8; s.l],
        _ => (0..s.l).map(|_| r.gen()).collect(),
    };
    let mut payload = b64(&bytes);
    if !s.c {
        match r.gen_range(0..4) {
            0 => payload.push('='),
            1 => payload.push_str("=="),
            2 => payload.insert(payload.len() / 2, '+'),
            _ => payload.push(' '),
        }
    }
    match s.n {
        0 => String::new(),
        1 => hdr.split('.').next().unwrap_or("").to_string(),
        2 => hdr.clone(),
        3 => format!("{}.{}", hdr, payload),
        n => {
            let foot = match s.f.as_str() {
                "match" => b64(F1.as_bytes()),
                "other" => b64(F2.as_bytes()),
                _ => String::new(),
            };
            let mut t = format!("{}.{}.{}", hdr, payload, foot);
            for _ in 4..n {
                t.push_str(".x");
            }
            t
        }
    }
}

fn check_all_entry_points(text: &str, km: &KeyMat, out: &mut SOut, what: &Value, allow_ok: bool) {
    for pr in Proto::all() {
        for layer in [Layer::Core, Layer::Generic, Layer::Prelude] {
            for footer in [None, Some(F1)] {
                let (o, calls) = present(pr, layer, text, km, footer, None);
                out.evaluations += 1;
                let bad = match &o {
                    Out::Panic(loc) => Some(format!("PANIC at {}", loc)),
                    Out::Ok(_) if !allow_ok => Some("accepted".to_string()),
                    Out::ErrPost(d) if !allow_ok => Some(format!("rejected only after authentication: {}", d)),
                    _ if !calls.is_empty() && !allow_ok => Some("a validator ran".to_string()),
                    _ => None,
                };
                if let Some(b) = bad {
                    out.nviol += 1;
                    if out.violations.len() < 30 {
                        out.violations.push(json!({"props": ["C09"], "what": format!("{} ({} {} entry point)", b, pr.name(), layer.name()),
                            "replay": {"kind": "shape", "case": what, "token": if text.len() > 600 { format!("{}... ({} bytes)", &text[..600], text.len()) } else { text.to_string() },
                                       "entry": {"pr": pr.name(), "layer": layer.name(), "footer": footer},
                                       "predicted": "pre", "observed": format!("{}:{}", o.class(), o.detail())}}));
                    }
                }
            }
        }
    }
}

pub fn run_shapes(shapes: &[Shape], tidx: usize, nthreads: usize, seed: u64, thorough: bool) -> SOut {
    let mut r = conc::rng(seed, &format!("shapes-{}", tidx));
    let km = conc::random_keymat(&mut r, tidx);
    let mut out = SOut::default();
    for (i, s) in shapes.iter().enumerate().filter(|(i, _)| i % nthreads == tidx) {
        out.shapes += 1;
        let fills: &[u8] = if thorough { &[0, 1, 2, 3] } else if i % 4 == 0 { &[0, 2] } else { &[2] };
        for fill in fills {
            let text = shape_text(s, *fill, &mut r);
            out.distinct += 1;
            check_all_entry_points(&text, &km, &mut out, &json!({"shape": {"h": s.h, "n": s.n, "l": s.l, "c": s.c, "f": s.f}, "fill": fill}), false);
            if out.samples.len() < 3 && i % 9973 == 7 {
                out.samples.push(json!({"shape": {"h": s.h, "segments": s.n, "decoded_len": s.l, "canonical": s.c, "footer_seg": s.f},
                                        "token": if text.len() > 100 { format!("{}...", &text[..100]) } else { text.clone() }, "predicted": "pre (all 24 entry points x 2 expected footers)"}));
            }
        }
    }
    out
}

/// inputs that the shape model does not enumerate: prefixes of authentic tokens, arbitrary
/// Unicode, very long inputs, runs of dots
pub fn run_fuzz(seed: u64, thorough: bool) -> SOut {
    let mut r = conc::rng(seed, "shape-fuzz");
    let km = conc::random_keymat(&mut r, 0);
    let mut out = SOut::default();
    // every prefix of an authentic token of each protocol (with and without footer)
    for pr in Proto::all() {
        for footer in [None, Some(F1)] {
            let nonce = conc::random_bytes32(&mut r);
            let msg = conc::json_message(&mut r, 24, 1);
            if let Out::Ok(tok) = core_mint(pr, &km, &nonce, &msg, footer, None) {
                let chars: Vec<char> = tok.chars().collect();
                let step = if pr.public && pr.v == 1 && !thorough { 3 } else { 1 };
                for l in (0..chars.len()).step_by(step) {
                    let p: String = chars[..l].iter().collect();
                    out.distinct += 1;
                    check_all_entry_points(&p, &km, &mut out, &json!({"prefix_of": pr.name(), "len": l}), false);
                }
                // ... and the whole token, several times (it authenticates at its own entry points: what runs
                // after authentication - JSON parsing, claim validators of either registration route - must not
                // panic either)
                for _ in 0..4 {
                    out.distinct += 1;
                    check_all_entry_points(&tok, &km, &mut out, &json!({"whole_token_of": pr.name()}), true);
                }
                // authentic tokens whose payload is not a JSON object (only the core layer accepts them)
                for m in ["[1,2]", "\"text\"", "42", "null", "", "{", "\u{feff}{}"] {
                    if let Out::Ok(t2) = core_mint(pr, &km, &nonce, m, footer, None) {
                        out.distinct += 1;
                        check_all_entry_points(&t2, &km, &mut out, &json!({"authentic_non_object_payload": m, "pr": pr.name()}), true);
                    }
                }
            }
        }
    }
    // footer segments with every byte value in first / last position and JSON-structural content (anything that
    // inspects the footer before authenticating it meets quotes, backslashes, brackets, NUL, invalid UTF-8)
    for pr in Proto::all() {
        let mut feet: Vec<Vec<u8>> = vec![];
        for b in 0..=255u8 {
            feet.push(vec![b]);
            feet.push(vec![b'a', b]);
            feet.push(vec![b, b'"']);
        }
        for sfx in ["{\"a\":\"\\", "\"\\", "\\\"", "{\"kid\":\"x\\", "[", "{", "\"", "{\"a\":{\"a\":{\"a\":1}}}"] {
            feet.push(sfx.as_bytes().to_vec());
        }
        feet.push("[".repeat(40).into_bytes());
        feet.push("{\"a\":".repeat(40).into_bytes());
        feet.push(vec![b'['; 70000]);
        let nonce = conc::random_bytes32(&mut r);
        let body = match core_mint(pr, &km, &nonce, "{\"data\":\"x\"}", None, None) {
            Out::Ok(t) => t,
            _ => format!("{}.AAAA", pr.name()),
        };
        for f in feet {
            let s = format!("{}.{}", body, b64(&f));
            out.distinct += 1;
            check_all_entry_points(&s, &km, &mut out, &json!({"footer_bytes_hex": hex::encode(&f[..f.len().min(40)]), "pr": pr.name()}), false);
        }
    }
    // arbitrary Unicode strings with 0..6 dots
    let n = if thorough { 20000 } else { 2000 };
    for i in 0..n {
        let segs = r.gen_range(0..7);
        let mut s = String::new();
        for j in 0..segs {
            if j > 0 {
                s.push('.');
            }
            let l = r.gen_range(0..40);
            let c = r.gen_range(0..5);
            if j < 2 && i % 2 == 0 {
                s.push_str(["v1", "v2", "v3", "v4", "local", "public", ""][r.gen_range(0..7)]);
            } else {
                s.push_str(&conc::message(&mut r, l, c));
            }
        }
        out.distinct += 1;
        check_all_entry_points(&s, &km, &mut out, &json!({"unicode": i}), false);
    }
    // multi-byte characters placed at and around every byte offset of the header (a character
    // that straddles a fixed byte offset is a classic slicing panic)
    for pr in Proto::all() {
        let h = pr.header();
        for ch in ["é", "€", "😀", "\u{80}", "\u{7ff}"] {
            for off in 0..=h.len() + 2 {
                let prefix: String = if off <= h.len() { h[..off].to_string() } else { format!("{}{}", h, "A".repeat(off - h.len())) };
                for tail in [".AAAA", ".AAAA.", ".AAAA.a2lkLTE", "AAAA", ".y.z"] {
                    for dotted in [true, false] {
                        let s = if dotted { format!("{}{}{}", prefix, ch, tail) } else { format!("{}{}{}", prefix.replace('.', "a"), ch, tail) };
                        out.distinct += 1;
                        check_all_entry_points(&s, &km, &mut out, &json!({"multibyte_at": off, "char": ch, "text": s}), false);
                    }
                }
            }
        }
    }
    // empty segments, runs of dots, 1 MiB inputs
    let mut specials: Vec<String> = (0..8).map(|k| ".".repeat(k)).collect();
    for pr in Proto::all() {
        specials.push(format!("{}.", pr.name()));
        specials.push(format!("{}..", pr.name()));
        specials.push(format!("{}...", pr.name()));
        specials.push(format!("{}.{}", pr.name(), "A".repeat(1 << 20)));
        specials.push(format!("{}.{}.{}", pr.name(), "A".repeat(1000), "B".repeat(1 << 20)));
        specials.push(format!("{}.{}", pr.name(), "=".repeat(64)));
    }
    specials.push("A".repeat(1 << 20));
    specials.push("é".repeat(1 << 19));
    for s in specials {
        out.distinct += 1;
        check_all_entry_points(&s, &km, &mut out, &json!({"special": if s.len() > 40 { format!("{}... ({} bytes)", &s[..s.char_indices().nth(20).map(|x| x.0).unwrap_or(0)], s.len()) } else { s.clone() }}), false);
    }
    out
}

fn key_from_hex(n: usize, s: &str) -> Result<bool, String> {
    let r = catch_unwind(AssertUnwindSafe(|| match n {
        24 => Key::<24>::try_from(s).is_ok(),
        32 => Key::<32>::try_from(s).is_ok(),
        48 => Key::<48>::try_from(s).is_ok(),
        49 => Key::<49>::try_from(s).is_ok(),
        64 => Key::<64>::try_from(s).is_ok(),
        _ => false,
    }));
    r.map_err(|_| "panic".to_string())
}

pub fn run_hex(cases: &[HexCase], seed: u64) -> SOut {
    let mut r = conc::rng(seed, "hex");
    let mut out = SOut::default();
    for c in cases {
        let digits = b"0123456789abcdefABCDEF";
        let mut s: String = (0..c.len).map(|_| digits[r.gen_range(0..digits.len())] as char).collect();
        if !c.hex {
            if c.len == 0 {
                continue;
            }
            let pos = r.gen_range(0..c.len);
            let bad = ['g', 'G', ' ', 'x', '-', '\0', 'z'][r.gen_range(0..7)];
            let mut v: Vec<char> = s.chars().collect();
            v[pos] = bad;
            s = v.into_iter().collect();
        }
        out.evaluations += 1;
        out.distinct += 1;
        let obs = key_from_hex(c.n, &s);
        let observed = match &obs {
            Ok(true) => "ok",
            Ok(false) => "err",
            Err(_) => "panic",
        };
        if observed != c.exp {
            out.nviol += 1;
            if out.violations.len() < 30 {
                out.violations.push(json!({"props": ["C09"], "what": format!("Key::<{}>::try_from(hex string of length {}) -> {} (expected {})", c.n, c.len, observed, c.exp),
                    "replay": {"kind": "hex", "n": c.n, "string": s, "predicted": c.exp, "observed": observed}}));
            }
        }
    }
    out
}
