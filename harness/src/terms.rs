//! C08: the term evaluator.  TLC prints the term tree of the token that the PASETO
//! specification prescribes (spec/Core.tla, MC_Terms).  This interpreter gives every
//! operator of the term language its real meaning (HMAC-SHA384, HKDF, BLAKE2b, AES-CTR,
//! XChaCha20(-Poly1305), Ed25519, ECDSA P-384, RSA-PSS, LE64, concatenation, slicing,
//! base64url).  It has no protocol knowledge: which primitive is applied to what, in
//! which order and with which separator strings comes from the specification only.

use crate::api::KeyMat;
use crate::edits::b64_independent;
use serde_json::Value;

pub struct Env<'a> {
    pub km: &'a KeyMat,
    pub seed: &'a [u8],
    pub msg: &'a [u8],
    pub footer: &'a [u8],
    pub assertion: &'a [u8],
}

fn hmac_sha384(key: &[u8], data: &[u8]) -> Vec<u8> {
    use hmac::{Hmac, Mac};
    let mut m = Hmac::<sha2::Sha384>::new_from_slice(key).expect("hmac key");
    m.update(data);
    m.finalize().into_bytes().to_vec()
}

fn blake2b_mac_var(key: &[u8], data: &[u8], n: usize) -> Vec<u8> {
    use blake2::digest::consts::{U24, U32, U56};
    use blake2::digest::{FixedOutput, KeyInit, Update};
    use blake2::Blake2bMac;
    match n {
        24 => {
            let mut m = <Blake2bMac<U24> as KeyInit>::new_from_slice(key).expect("key");
            m.update(data);
            m.finalize_fixed().to_vec()
        }
        32 => {
            let mut m = <Blake2bMac<U32> as KeyInit>::new_from_slice(key).expect("key");
            m.update(data);
            m.finalize_fixed().to_vec()
        }
        56 => {
            let mut m = <Blake2bMac<U56> as KeyInit>::new_from_slice(key).expect("key");
            m.update(data);
            m.finalize_fixed().to_vec()
        }
        _ => panic!("unsupported blake2b length {}", n),
    }
}

fn hkdf_sha384(salt: &[u8], ikm: &[u8], info: &[u8], n: usize) -> Vec<u8> {
    let hk = hkdf::Hkdf::<sha2::Sha384>::new(if salt.is_empty() { None } else { Some(salt) }, ikm);
    let mut out = vec![0u8; n];
    hk.expand(info, &mut out).expect("hkdf length");
    out
}

fn aes256ctr(key: &[u8], iv: &[u8], data: &[u8]) -> Vec<u8> {
    use aes::cipher::generic_array::GenericArray;
    use aes::cipher::{NewCipher, StreamCipher};
    let mut c = aes::Aes256Ctr::new(GenericArray::from_slice(key), GenericArray::from_slice(iv));
    let mut out = data.to_vec();
    c.apply_keystream(&mut out);
    out
}

fn xchacha20(key: &[u8], iv: &[u8], data: &[u8]) -> Vec<u8> {
    use chacha20::cipher::{KeyIvInit, StreamCipher};
    let mut c = chacha20::XChaCha20::new(chacha20::Key::from_slice(key), chacha20::XNonce::from_slice(iv));
    let mut out = data.to_vec();
    c.apply_keystream(&mut out);
    out
}

fn xchacha20poly1305(key: &[u8], nonce: &[u8], msg: &[u8], aad: &[u8]) -> Vec<u8> {
    use chacha20poly1305::aead::{Aead, Payload};
    use chacha20poly1305::{KeyInit, XChaCha20Poly1305, XNonce};
    let a = XChaCha20Poly1305::new_from_slice(key).expect("key");
    a.encrypt(XNonce::from_slice(nonce), Payload { msg, aad }).expect("aead")
}

pub fn ed25519_sign(seed32: &[u8], data: &[u8]) -> Vec<u8> {
    use ed25519_dalek::Signer;
    let mut s = [0u8; 32];
    s.copy_from_slice(&seed32[..32]);
    ed25519_dalek::SigningKey::from_bytes(&s).sign(data).to_bytes().to_vec()
}

pub fn ed25519_verify(pk: &[u8], data: &[u8], sig: &[u8]) -> bool {
    use ed25519_dalek::Verifier;
    let mut p = [0u8; 32];
    if pk.len() != 32 || sig.len() != 64 {
        return false;
    }
    p.copy_from_slice(pk);
    let vk = match ed25519_dalek::VerifyingKey::from_bytes(&p) {
        Ok(v) => v,
        Err(_) => return false,
    };
    let sg = match ed25519_dalek::Signature::from_slice(sig) {
        Ok(s) => s,
        Err(_) => return false,
    };
    vk.verify(data, &sg).is_ok()
}

pub fn p384_sign(scalar: &[u8], data: &[u8]) -> Vec<u8> {
    use p384::ecdsa::signature::Signer;
    let sk = p384::ecdsa::SigningKey::from_bytes(scalar.into()).expect("p384 key");
    let sig: p384::ecdsa::Signature = sk.sign(data);
    sig.to_bytes().to_vec()
}

pub fn p384_verify(pk_sec1: &[u8], data: &[u8], sig: &[u8]) -> bool {
    use p384::ecdsa::signature::Verifier;
    let vk = match p384::ecdsa::VerifyingKey::from_sec1_bytes(pk_sec1) {
        Ok(v) => v,
        Err(_) => return false,
    };
    let sg = match p384::ecdsa::Signature::from_slice(sig) {
        Ok(s) => s,
        Err(_) => return false,
    };
    vk.verify(data, &sg).is_ok()
}

pub fn rsa_pss_sign(pkcs8: &[u8], data: &[u8]) -> Vec<u8> {
    let kp = ring::signature::RsaKeyPair::from_pkcs8(pkcs8).expect("rsa key");
    let mut sig = vec![0u8; kp.public().modulus_len()];
    kp.sign(&ring::signature::RSA_PSS_SHA384, &ring::rand::SystemRandom::new(), data, &mut sig).expect("rsa sign");
    sig
}

pub fn rsa_pss_verify(pk_der: &[u8], data: &[u8], sig: &[u8]) -> bool {
    ring::signature::UnparsedPublicKey::new(&ring::signature::RSA_PSS_2048_8192_SHA384, pk_der).verify(data, sig).is_ok()
}

fn le64(n: u64) -> Vec<u8> {
    // Common.md: little-endian, most significant bit cleared
    let mut out = Vec::with_capacity(8);
    let mut x = n & 0x7fff_ffff_ffff_ffff;
    for _ in 0..8 {
        out.push((x & 0xff) as u8);
        x >>= 8;
    }
    out
}

fn arg<'v>(t: &'v Value, i: usize) -> &'v Value {
    &t["args"][i]
}

pub fn eval(t: &Value, env: &Env) -> Result<Vec<u8>, String> {
    let op = t["op"].as_str().ok_or("term without op")?;
    let tag = t["tag"].as_str().unwrap_or("");
    let n1 = t["n1"].as_u64().unwrap_or(0) as usize;
    let n2 = t["n2"].as_u64().unwrap_or(0) as usize;
    match op {
        "atom" => Ok(match tag {
            "K" => env.km.sym.to_vec(),
            "S" => env.seed.to_vec(),
            "M" => env.msg.to_vec(),
            "F" => env.footer.to_vec(),
            "A" => env.assertion.to_vec(),
            x => return Err(format!("unknown atom {}", x)),
        }),
        "lit" => Ok(tag.as_bytes().to_vec()),
        "empty" => Ok(vec![]),
        "concat" => {
            let mut out = vec![];
            for a in t["args"].as_array().ok_or("concat args")? {
                out.extend(eval(a, env)?);
            }
            Ok(out)
        }
        "slice" => {
            let v = eval(arg(t, 0), env)?;
            if n2 > v.len() || n1 > n2 {
                return Err(format!("slice {}..{} of {} bytes", n1, n2, v.len()));
            }
            Ok(v[n1..n2].to_vec())
        }
        "le64n" => Ok(le64(n1 as u64)),
        "le64len" => Ok(le64(eval(arg(t, 0), env)?.len() as u64)),
        "mac" => {
            let key = eval(arg(t, 0), env)?;
            let data = eval(arg(t, 1), env)?;
            match tag {
                "hmac-sha384" => Ok(hmac_sha384(&key, &data)),
                "blake2b-24" => Ok(blake2b_mac_var(&key, &data, 24)),
                "blake2b-32" => Ok(blake2b_mac_var(&key, &data, 32)),
                "blake2b-56" => Ok(blake2b_mac_var(&key, &data, 56)),
                x => Err(format!("unknown mac {}", x)),
            }
        }
        "hkdf" => {
            let salt = eval(arg(t, 0), env)?;
            let ikm = eval(arg(t, 1), env)?;
            let info = eval(arg(t, 2), env)?;
            Ok(hkdf_sha384(&salt, &ikm, &info, n1))
        }
        "enc" => {
            let key = eval(arg(t, 0), env)?;
            let iv = eval(arg(t, 1), env)?;
            let m = eval(arg(t, 2), env)?;
            match tag {
                "aes-256-ctr" => Ok(aes256ctr(&key, &iv, &m)),
                "xchacha20" => Ok(xchacha20(&key, &iv, &m)),
                x => Err(format!("unknown cipher {}", x)),
            }
        }
        "aead" => {
            let key = eval(arg(t, 0), env)?;
            let nonce = eval(arg(t, 1), env)?;
            let m = eval(arg(t, 2), env)?;
            let aad = eval(arg(t, 3), env)?;
            Ok(xchacha20poly1305(&key, &nonce, &m, &aad))
        }
        // secret key of an algorithm taken from the key bundle
        "sk" => Ok(match tag {
            "ed25519" => env.km.ed_sk[..32].to_vec(),
            "ecdsa-p384" => env.km.p384_sk.to_vec(),
            "rsa-pss-sha384" => env.km.rsa_sk.clone(),
            x => return Err(format!("unknown sk alg {}", x)),
        }),
        "pk" => {
            let sk = eval(arg(t, 0), env)?;
            match tag {
                "ed25519" => {
                    let mut s = [0u8; 32];
                    s.copy_from_slice(&sk[..32]);
                    Ok(ed25519_dalek::SigningKey::from_bytes(&s).verifying_key().to_bytes().to_vec())
                }
                "ecdsa-p384" => {
                    use p384::elliptic_curve::sec1::ToEncodedPoint;
                    let k = p384::SecretKey::from_slice(&sk).map_err(|e| e.to_string())?;
                    Ok(k.public_key().to_encoded_point(true).as_bytes().to_vec())
                }
                "rsa-pss-sha384" => Ok(env.km.rsa_pk.clone()),
                x => Err(format!("unknown pk alg {}", x)),
            }
        }
        "sig" => {
            let sk = eval(arg(t, 0), env)?;
            let data = eval(arg(t, 1), env)?;
            match tag {
                "ed25519" => Ok(ed25519_sign(&sk, &data)),
                "ecdsa-p384" => Ok(p384_sign(&sk, &data)),
                "rsa-pss-sha384" => Ok(rsa_pss_sign(&sk, &data)),
                x => Err(format!("unknown sig alg {}", x)),
            }
        }
        x => Err(format!("unknown operator {}", x)),
    }
}

/// the token text for an entry of MC_Terms under an environment
pub fn token_of(entry: &Value, env: &Env) -> Result<String, String> {
    let mut payload = vec![];
    for f in entry["fields"].as_array().ok_or("fields")? {
        payload.extend(eval(&f["t"], env)?);
    }
    let mut s = format!("{}{}", entry["header"].as_str().unwrap_or(""), b64_independent(&payload));
    // the footer segment is present iff the footer is non-empty
    if !env.footer.is_empty() {
        s.push('.');
        s.push_str(&b64_independent(env.footer));
    }
    Ok(s)
}

/// the bytes a public protocol signs (second argument of the sig term) and the algorithm
pub fn signing_input(entry: &Value, env: &Env) -> Result<(String, Vec<u8>), String> {
    for f in entry["fields"].as_array().ok_or("fields")? {
        if f["name"] == "sig" {
            let alg = f["t"]["tag"].as_str().unwrap_or("").to_string();
            return Ok((alg, eval(arg(&f["t"], 1), env)?));
        }
    }
    Err("no sig field".into())
}

