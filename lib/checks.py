"""Per-property decision procedures (DESIGN.md section 5)."""
import json
import os
import time

import verif
from verif import ToolError, log

MC = os.path.join(verif.SPEC, "mc")

CORE_ASSUMPTIONS = [
    "symbolic model: MAC/AEAD/signature unforgeability; distinct terms denote distinct bytes",
    "the primitive crates (ring, RustCrypto) are correct",
    "byte-level behaviour is reached by the concretisation sweep (exhaustive over positions/lengths stated in rule, sampled over content)",
]


def _summary(path):
    return json.load(open(path))


def check_core_family(prop, tier):
    """C01-C07: life of a token (spec/Core.tla, MC_Core) + spec->impl replay."""
    t0 = time.time()
    cfg = "MC_Core_quick.cfg" if tier == "quick" or prop not in ("C03",) else "MC_Core_thorough.cfg"
    res = verif.run_tlc("MC_Core.tla", cfg, workers=8, timeout=3000)
    verif.require_model_ok(res, "MC_Core/" + cfg)
    cases = verif.printed_records(res["out"], "CASE")
    if not cases:
        raise ToolError("MC_Core printed no replay cases")
    cases_path = os.path.join(verif.WORK, "core_cases_%s_%s.ndjson" % (prop, tier))
    verif.write_ndjson(cases_path, cases)
    out = os.path.join(verif.WORK, "replay_%s_%s.json" % (prop, tier))
    rc, _, wall = verif.run_pv(["replay-core", "--cases", cases_path, "--prop", prop, "--tier", tier,
                                "--seed", str(verif.seed()), "--out", out], timeout=7200)
    s = _summary(out)
    extra_viol = []
    extra_cov = {}
    if prop in ("C05", "C06"):
        # direct observations on produced tokens (footer segment text, hidden assertion)
        out2 = os.path.join(verif.WORK, "minted_%s_%s.json" % (prop, tier))
        verif.run_pv(["minted-checks", "--prop", prop, "--tier", tier, "--seed", str(verif.seed()), "--out", out2])
        s2 = _summary(out2)
        extra_viol = s2["violations"]
        extra_cov = {"minted_token_checks": s2["evaluations"], "minted_rule": s2["rule"]}
    fresh = verif.report(prop, s["violations"] + extra_viol, tier)
    if s["nviol"] > len(s["violations"]) and fresh == 0 and s["nviol"] > 0:
        # more violations than were kept, all kept ones are known: be conservative
        log("note: %d violations observed, %d recorded" % (s["nviol"], len(s["violations"])))
    n_cases = len([c for c in cases])
    coverage = {
        "states": res["distinct"],
        "transitions": res["states"],
        "traces_validated_against_impl": s["cases"],
        "samples": s["samples"][:6] or [cases[0]],
        "evaluations": s["presentations"],
        "distinct_nontrivial": s["distinct"],
        "rule": "TLC enumerates every reachable token state of MC_Core (%s: 8 protocols x footer x assertion, "
                "edit alphabet of spec/Core.tla) and prints one replay case per state (%d cases); each case relevant "
                "to %s is instantiated with concrete keys/messages/footers and every abstract edit is expanded to "
                "concrete positions; one evaluation = one presentation of one concrete token to one entry point; "
                "distinct = distinct (token text, protocol, key, footer, assertion, layer) tuples" % (cfg, n_cases, prop),
        "tlc_invariants": "Inv_All (RoundTrip, Integrity, KeyBound, FooterBound, AssertBound, ProtoBound, AcceptIff, FooterSeg, Hidden, NoPanic, PredictionSound)",
        "tlc_depth": res["depth"],
        "tlc_wall_s": round(res["wall"], 1),
        "concrete_tokens": s["tokens"],
        "instances": s["instances"],
        "expected_ok": s["expected_ok"],
        "expected_reject": s["expected_reject"],
        "tolerated_accepted": s["tolerated_accepted"],
        "tolerated_rejected": s["tolerated_rejected"],
        "mutants_by_edit_kind": s["mutants_by_edit_kind"],
        "exhaustive": False,
    }
    coverage.update(extra_cov)
    verif.write_evidence(prop, tier, coverage, CORE_ASSUMPTIONS, time.time() - t0, s["nviol"] + len(extra_viol))
    return 1 if fresh > 0 else 0


REGISTRY = {}
for _p in ("C01", "C02", "C03", "C04", "C05", "C06", "C07"):
    REGISTRY[_p] = check_core_family
