"""Per-property decision procedures (DESIGN.md section 5)."""
import json
import os
import time

import verif
from verif import ToolError, log

MC = os.path.join(verif.SPEC, "mc")

CORE_ASSUMPTIONS = [
    "symbolic model: MAC/AEAD/signature unforgeability; distinct terms denote distinct bytes",
    "the primitive crates (ring, RustCrypto) are correct",
    "byte-level behaviour is reached by the concretisation sweep (exhaustive over positions/lengths stated in rule, sampled over content)",
]


def _summary(path):
    return json.load(open(path))


def check_core_family(prop, tier):
    """C01-C07: life of a token (spec/Core.tla, MC_Core) + spec->impl replay."""
    t0 = time.time()
    cfg = "MC_Core_quick.cfg" if tier == "quick" or prop not in ("C03",) else "MC_Core_thorough.cfg"
    res = verif.run_tlc("MC_Core.tla", cfg, workers=8, timeout=3000)
    verif.require_model_ok(res, "MC_Core/" + cfg)
    cases = verif.printed_records(res["out"], "CASE")
    if not cases:
        raise ToolError("MC_Core printed no replay cases")
    sim_cases = 0
    if prop == "C03":
        # random longer behaviours of the same specification (up to 4 successive edits): TLC simulation mode
        sres = verif.run_tlc("MC_Core.tla", "MC_Core_sim.cfg", workers=4, timeout=3000,
                             simulate="num=%d" % (100 if tier == "quick" else 1500), tag="MC_Core-sim")
        if sres["violated"]:
            raise ToolError("MC_Core simulation reported %s" % sres["violated"])
        seen = set()
        for c in verif.printed_records(sres["out"], "CASE"):
            if len(c["edits"]) >= 2:
                key = json.dumps([c["mint"], c["edits"]], sort_keys=True)
                if key not in seen:
                    seen.add(key)
                    cases.append(c)
                    sim_cases += 1
    if prop == "C03" and tier == "thorough":
        # the thorough model (two successive edits) has ~30x the cases of the quick one; every single-edit case is
        # replayed, of the two-edit cases every 12th (the replay expands each to thousands of concrete tokens)
        one = [c for c in cases if len(c["edits"]) <= 1]
        two = [c for c in cases if len(c["edits"]) > 1]
        cases = one + two[::12]
    cases_path = os.path.join(verif.WORK, "core_cases_%s_%s.ndjson" % (prop, tier))
    verif.write_ndjson(cases_path, cases)
    out = os.path.join(verif.WORK, "replay_%s_%s.json" % (prop, tier))
    rc, _, wall = verif.run_pv(["replay-core", "--cases", cases_path, "--prop", prop, "--tier", tier,
                                "--seed", str(verif.seed()), "--out", out], timeout=7200)
    s = _summary(out)
    extra_viol = []
    extra_cov = {}
    lemma = {"C06": ("MC_Pae.tla", "MC_Pae.cfg"), "C03": ("MC_B64.tla", "MC_B64.cfg")}.get(prop)
    lemma_cov = {}
    if lemma:
        # byte-level lemma the symbolic model relies on: PAE is injective (C06: same concatenation, different
        # split) / canonical base64url strings are in bijection with byte strings (C03: one text per payload)
        lres = verif.run_tlc(lemma[0], lemma[1], workers=1, timeout=900)
        verif.require_model_ok(lres, lemma[0])
        lemma_cov = {"byte_level_lemma": lemma[0].replace(".tla", "") + " checked by TLC (%.1fs)" % lres["wall"]}
    if prop in ("C05", "C06"):
        # direct observations on produced tokens (footer segment text, hidden assertion)
        out2 = os.path.join(verif.WORK, "minted_%s_%s.json" % (prop, tier))
        verif.run_pv(["minted-checks", "--prop", prop, "--tier", tier, "--seed", str(verif.seed()), "--out", out2])
        s2 = _summary(out2)
        extra_viol = extra_viol + s2["violations"]
        extra_cov.update({"minted_token_checks": s2["evaluations"], "minted_rule": s2["rule"]})
    if prop in ("C01", "C02", "C05", "C06"):
        # one core builder object Paseto<V,P> used for several tokens (spec/CoreObj.tla)
        co = coreobj_pipeline(prop, tier, purpose={"C01": "local", "C02": "public"}.get(prop))
        extra_viol = extra_viol + co["violations"]
        extra_cov.update({"core_object_histories": co["n"], "core_object_mints_read_back": co["nmint"], "core_object_model_states": co["states"]})
    if prop in ("C01", "C02", "C05", "C06"):
        # "the same holds end to end through the generic and batteries-included builders and parsers";
        # set_footer / set_implicit_assertion on the builders must reach every token built (C05, C06)
        conf = dict(fam="c13", rnd=(600, 6000), nonce=(0, 0), whys=(prop,), maxops=(4, 5), deep=False, allprotos=True)
        r = builder_pipeline(prop, tier, conf, purpose={"C01": "local", "C02": "public"}.get(prop))
        extra_viol = extra_viol + r["violations"]
        extra_cov.update({"builder_histories_executed": r["n"], "builder_builds_read_back": r["nbuilds"],
                          "builder_model_states": r["states"]})
    if prop in ("C01", "C02", "C05", "C06"):
        # set_footer / set_implicit_assertion histories with two values each and the empty string, on both
        # builders (the token is bound to the pair set last) and on both parsers (reconfigured between parses)
        for fam in ("c05b", "c05g"):
            conf = dict(fam=fam, rnd=(0, 0), nonce=(0, 0), whys=(prop,), deep=True, allprotos=True)
            r = builder_pipeline(prop + fam[-1], tier, conf, purpose={"C01": "local", "C02": "public"}.get(prop))
            for v in r["violations"]:
                v["props"] = [prop]
            extra_viol = extra_viol + r["violations"]
            extra_cov["builder_histories_executed"] = extra_cov.get("builder_histories_executed", 0) + r["n"]
            extra_cov["builder_builds_read_back"] = extra_cov.get("builder_builds_read_back", 0) + r["nbuilds"]
        for fam in (("c05", "c05p") if prop in ("C05", "C06") else ()):
            r = parser_pipeline(prop + fam[3:], tier, fam, (prop,), need=('"res":"ok"', '"res":"pre"'))
            for v in r["violations"]:
                v["props"] = [prop]
            extra_viol = extra_viol + r["violations"]
            extra_cov["parser_histories_executed"] = extra_cov.get("parser_histories_executed", 0) + r["n"]
            extra_cov["parser_parses"] = extra_cov.get("parser_parses", 0) + r["nparse"]
    if prop == "C07":
        # one parser object that has just accepted a token is shown the same token under the header of another
        # protocol (re-parse histories c16r / c16pr; the table holds a relabelled copy of the authentic token)
        for cn in ("c16r", "c16pr"):
            r = parser_pipeline(prop + cn[3:], tier, "c16" if cn == "c16r" else "c16p", ("C07",), cfgname=cn)
            for v in r["violations"]:
                v["props"] = [prop]
            extra_viol = extra_viol + r["violations"]
            extra_cov["parser_histories_executed"] = extra_cov.get("parser_histories_executed", 0) + r["n"]
            extra_cov["parser_parses"] = extra_cov.get("parser_parses", 0) + r["nparse"]
    if prop == "C04":
        # one parser object, the same token presented again under another key (call histories)
        r = parser_pipeline(prop, tier, "c15", ("C04",), cfgname="c04")
        extra_viol = r["violations"]
        extra_cov = {"parser_histories_executed": r["n"], "parser_parses": r["nparse"], "parser_model_states": r["states"]}
    # vacuity guards: the run must have exercised what the property is about
    kinds = s["mutants_by_edit_kind"]
    if prop == "C03":
        needed = {"flip", "trunc-tail", "trunc-head", "drop-field", "extend-tail", "extend-head", "insert-after", "splice",
                  "sig-reencode", "pay-noncanon", "hdr-bad", "relabel", "foot-drop", "foot-add-empty", "foot-add", "foot-replace",
                  "foot-noncanon", "foot-garble", "foot-trunc", "foot-extend", "extra-seg", "few-seg", "prefix-payload",
                  "dot-insert", "random-multi"}
        missing = [k for k in needed if kinds.get(k, 0) == 0]
        if missing or s["tolerated_accepted"] + s["tolerated_rejected"] == 0:
            raise ToolError("vacuous C03 run: edit kinds without any concrete mutant: %s; tolerated cases: %d" % (missing, s["tolerated_accepted"]))
    if s["nviol"] == 0 and prop in ("C01", "C02") and s["expected_ok"] == 0:
        raise ToolError("vacuous %s run: no accepting presentation was replayed" % prop)
    if s["nviol"] == 0 and prop in ("C04", "C05", "C06", "C07") and s["expected_reject"] == 0:
        raise ToolError("vacuous %s run: no rejecting presentation was replayed" % prop)
    fresh = verif.report(prop, s["violations"] + extra_viol, tier)
    if s["nviol"] > len(s["violations"]) and fresh == 0 and s["nviol"] > 0:
        # more violations than were kept, all kept ones are known: be conservative
        log("note: %d violations observed, %d recorded" % (s["nviol"], len(s["violations"])))
    n_cases = len([c for c in cases])
    coverage = {
        "states": res["distinct"],
        "transitions": res["states"],
        "traces_validated_against_impl": s["cases"],
        "samples": s["samples"][:6] or [cases[0]],
        "evaluations": s["presentations"],
        "distinct_nontrivial": s["distinct"],
        "rule": "TLC enumerates every reachable token state of MC_Core (%s: 8 protocols x footer x assertion, "
                "edit alphabet of spec/Core.tla) and prints one replay case per state (%d cases); each case relevant "
                "to %s is instantiated with concrete keys/messages/footers and every abstract edit is expanded to "
                "concrete positions; one evaluation = one presentation of one concrete token to one entry point; "
                "distinct = distinct (token text, protocol, key, footer, assertion, layer) tuples" % (cfg, n_cases, prop),
        "tlc_invariants": "Inv_All (RoundTrip, Integrity, KeyBound, FooterBound, AssertBound, ProtoBound, AcceptIff, FooterSeg, Hidden, NoPanic, PredictionSound)",
        "tlc_depth": res["depth"],
        "simulated_multi_edit_cases": sim_cases,
        "tlc_wall_s": round(res["wall"], 1),
        "concrete_tokens": s["tokens"],
        "instances": s["instances"],
        "expected_ok": s["expected_ok"],
        "expected_reject": s["expected_reject"],
        "tolerated_accepted": s["tolerated_accepted"],
        "tolerated_rejected": s["tolerated_rejected"],
        "mutants_by_edit_kind": s["mutants_by_edit_kind"],
        "advisory_error_variant_agreement": "%d of %d rejections carried the PasetoError variant the step-by-step model names (never an alarm)"
                                            % (s.get("advisory_variant_agree", 0), s.get("advisory_variant_total", 0)),
        "advisory_error_variant_disagreements": s.get("advisory_variant_disagree", {}),
        "exhaustive": False,
    }
    coverage.update(extra_cov)
    coverage.update(lemma_cov)
    verif.write_evidence(prop, tier, coverage, CORE_ASSUMPTIONS, time.time() - t0, s["nviol"] + len(extra_viol))
    return 1 if fresh > 0 else 0


TRACE_DIR = os.path.join(verif.SPEC, "trace")


def _validate_part(module, cfg, trace_path, timeout, tag):
    res = verif.run_tlc(os.path.join(TRACE_DIR, module), cfg, workers=1, timeout=timeout,
                        env_extra={"TRACE": trace_path}, tag=tag)
    recs = verif.printed_records(res["out"], "RESULT")
    if not recs:
        tail = "\n".join(res["out"].splitlines()[-30:])
        raise ToolError("trace validation did not finish (%s on %s):\n%s" % (module, trace_path, tail))
    return recs[-1], res


def validate_trace(module, cfg, trace_path, timeout=3000):
    """Implementation -> specification: TLC checks every recorded behaviour in trace_path
    against spec/trace/<module>. Returns (number of behaviours, list of rejected ones, tlc result).
    One line = one object history, validated independently of the others, so a long trace is cut into
    parts that separate TLC processes validate side by side (line numbers are mapped back)."""
    with open(trace_path) as f:
        lines = f.readlines()
    nparts = min(8, len(lines) // 12000 + 1)
    if nparts <= 1:
        r, res = _validate_part(module, cfg, trace_path, timeout, module.replace(".tla", ""))
        return r["n"], r["bad"], res
    from concurrent.futures import ThreadPoolExecutor
    size = (len(lines) + nparts - 1) // nparts
    parts = []
    for i in range(nparts):
        pp = "%s.part%d" % (trace_path, i)
        with open(pp, "w") as f:
            f.writelines(lines[i * size:(i + 1) * size])
        parts.append(pp)
    t0 = time.time()
    with ThreadPoolExecutor(max_workers=nparts) as ex:
        futs = [ex.submit(_validate_part, module, cfg, pp, timeout, "%s-part%d" % (module.replace(".tla", ""), i)) for i, pp in enumerate(parts)]
        outs = [f.result() for f in futs]
    n = 0
    bad = []
    for i, (r, _res) in enumerate(outs):
        n += r["n"]
        for b in r["bad"]:
            b = dict(b)
            b["line"] += i * size
            bad.append(b)
    for pp in parts:
        os.remove(pp)
    res = dict(outs[0][1])
    res["wall"] = time.time() - t0
    return n, bad, res


BUILDER_ASSUMPTIONS = [
    "the wall clock does not jump by more than the bracket taken around each builder history",
    "projection of concrete payloads to abstract values is done by the harness (serde_json equality; defaults recognised by creation-time bracket and exp - iat = 3600 s)",
    "randomness: a repeated 24/32-byte nonce by chance has probability < 2^-100; bit-frequency bound false-alarm probability < 2^-64",
]

BUILDER_FAMILY = {
    # property -> (MC family, quick random histories, thorough random histories, nonce builds quick/thorough)
    "C13": dict(fam="c13", rnd=(2000, 50000), nonce=(0, 0), whys=("C13",)),
    "C17": dict(fam="c17", rnd=(2000, 50000), nonce=(0, 0), whys=("C17",)),
    "C14": dict(fam="c14", rnd=(3000, 60000), nonce=(0, 0), whys=("C14",)),
    "C10": dict(fam="c10", rnd=(1000, 10000), nonce=(4096, 100000), whys=("C10",)),
}


def coreobj_pipeline(prop, tier, purpose=None, terms=None):
    """MC_CoreObj (every call history of one Paseto<V,P> builder object) -> executed on the real object,
    every minted token read back under a matrix of presentations -> CoreObjTrace validation."""
    res = verif.run_tlc("MC_CoreObj.tla", "MC_CoreObj.cfg" if tier == "quick" else "MC_CoreObj_thorough.cfg", workers=8, timeout=1800)
    verif.require_model_ok(res, "MC_CoreObj")
    behs = verif.printed_records(res["out"], "BEH")
    if not behs:
        raise ToolError("MC_CoreObj printed no behaviours")
    bp = os.path.join(verif.WORK, "cobeh_%s_%s.ndjson" % (prop, tier))
    verif.write_ndjson(bp, behs)
    trace = os.path.join(verif.WORK, "cotrace_%s_%s.ndjson" % (prop, tier))
    verif.run_pv(["run-coreobj", "--behaviours", bp, "--tier", tier, "--seed", str(verif.seed()), "--out", trace]
                 + (["--terms", terms] if terms else []), timeout=7200)
    n, bad, tres = validate_trace("CoreObjTrace.tla", "CoreObjTrace.cfg", trace, timeout=7000)
    violations = []
    nmint = 0
    with open(trace) as f:
        lines = f.read().split("\n")
    for l in lines:
        nmint += l.count('"op":"mint"')
    for b in bad:
        rec = json.loads(lines[b["line"] - 1])
        if prop not in b["why"]:
            continue
        if purpose and not rec["pr"].endswith(purpose):
            continue
        violations.append({"props": [prop], "what": "%s (core builder object %s, call %d)" % (b["why"], b["id"], b["step"]),
                           "replay": {"kind": "coreobj-trace", "id": b["id"], "pr": rec["pr"], "failing_call": b["step"], "why": b["why"],
                                      "behaviour": rec, "reproduce": "pv run-coreobj --behaviours %s --tier %s --seed %d ; validate with spec/trace/CoreObjTrace.tla" % (bp, tier, verif.seed())}})
    return dict(n=n, nmint=nmint, states=res["distinct"], violations=violations, bad=bad)


def builder_pipeline(prop, tier, conf, purpose=None):
    """MC_Builder -> harness execution on the real builders -> BuilderTrace validation.
    Returns dict(states, transitions, nbeh, n, bad, violations, other, nbuilds, samples, twall, args)."""
    thorough = tier == "thorough"
    fam = conf["fam"]
    beh_path = os.path.join(verif.WORK, "beh_%s_%s.ndjson" % (prop, tier))
    if fam == "c10":
        # the model-level part of C10 is the counter invariant of MC_Builder (family c13);
        # the long histories come from the nonce driver
        res = verif.run_tlc("MC_Builder.tla", "MC_Builder_c13.cfg", workers=8, timeout=1800)
        verif.require_model_ok(res, "MC_Builder_c13")
        behs = [b for b in verif.printed_records(res["out"], "BEH") if sum(1 for o in b["ops"] if o["op"] == "build") >= 2]
        behs = behs[:: max(1, len(behs) // 3000)]
    else:
        cfg = "MC_Builder_%s%s.cfg" % (fam, "_thorough" if thorough and conf.get("deep", True) else "")
        res = verif.run_tlc("MC_Builder.tla", cfg, workers=8, timeout=3000)
        verif.require_model_ok(res, cfg)
        behs = verif.printed_records(res["out"], "BEH")
        if conf.get("maxops"):
            behs = [b for b in behs if len(b["ops"]) <= conf["maxops"][1 if thorough else 0]]
    if not behs:
        raise ToolError("MC_Builder printed no behaviours")
    verif.write_ndjson(beh_path, behs)
    trace = os.path.join(verif.WORK, "btrace_%s_%s.ndjson" % (prop, tier))
    args = ["run-builder", "--behaviours", beh_path, "--tier", "thorough" if conf.get("allprotos") else tier,
            "--seed", str(verif.seed()), "--family", "c17" if fam == "c10" else fam,
            "--random", str(conf["rnd"][1 if thorough else 0]), "--maxlen", "40", "--out", trace]
    if conf["nonce"][0]:
        args += ["--nonce", str(conf["nonce"][1 if thorough else 0])]
    verif.run_pv(args, timeout=7200)
    n, bad, tres = validate_trace("BuilderTrace.tla", "BuilderTrace.cfg", trace, timeout=7000)
    violations = []
    other = 0
    if bad:
        lines = open(trace).read().split("\n")
        for b in bad:
            rec = json.loads(lines[b["line"] - 1])
            mine = any(w in b["why"] for w in conf["whys"])
            if purpose and not rec["pr"].endswith(purpose):
                mine = False
            if not mine:
                other += 1
                log("note: behaviour %s rejected for another property: %s" % (b["id"], b["why"]))
                continue
            violations.append({"props": [prop], "what": "%s (behaviour %s, call %d)" % (b["why"], b["id"], b["step"]),
                               "replay": {"kind": "builder-trace", "id": b["id"], "pr": rec["pr"], "layer": rec["layer"],
                                          "failing_call": b["step"], "why": b["why"], "behaviour": rec,
                                          "reproduce": "pv " + " ".join(args) + " ; validate with spec/trace/BuilderTrace.tla"}})
    nbuilds = 0
    sample = []
    hist = {}
    with open(trace) as f:
        for i, line in enumerate(f):
            nbuilds += line.count('"op":"build"')
            for key in ('"res":"ok"', '"res":"dup"', '"res":"unreadable"'):
                hist[key] = hist.get(key, 0) + line.count(key)
            if i in (0, n // 2, n - 1):
                sample.append(json.loads(line))
    for smp in sample:
        if len(smp.get("ops", [])) > 12:
            smp["ops"] = smp["ops"][:12] + ["... %d more calls" % (len(smp["ops"]) - 12)]
        if "counts" in smp:
            smp["counts"] = smp["counts"][:16] + ["..."]
    if not bad and (hist.get('"res":"ok"', 0) == 0 or (fam in ("c13", "c17") and hist.get('"res":"dup"', 0) == 0)):
        raise ToolError("vacuous builder run (%s): observed outcomes %s" % (fam, hist))
    return dict(states=res["distinct"], transitions=res["states"], nbeh=len(behs), n=n, bad=bad, violations=violations,
                other=other, nbuilds=nbuilds, samples=sample, twall=tres["wall"], args=args, outcomes=hist)


def apalache_builder_induction():
    """Unbounded call histories at model level: the inductive invariant of spec/apalache/BuilderInd.tla
    discharged with Apalache (base, step, implication of DupIff/DupSticky/ExpDefault) plus two
    non-vacuity obligations that must be reported violated."""
    import subprocess
    d = os.path.join(verif.SPEC, "apalache")
    jobs = [("base", ["--init=Init", "--inv=IndInv", "--length=0"], True),
            ("step", ["--init=IndInit", "--inv=IndInv", "--length=1"], True),
            ("implies-properties", ["--init=IndInit", "--inv=Props", "--length=0"], True),
            ("indinit-satisfiable", ["--init=IndInit", "--inv=NoState", "--length=0"], False),
            ("step-enabled", ["--init=IndInit", "--inv=NoBuildStep", "--length=1"], False)]
    done = []
    for name, args, expect_ok in jobs:
        outdir = os.path.join(verif.WORK, "apalache-out")
        try:
            p = subprocess.run(["apalache-mc", "check", "--cinit=ConstInit", "--out-dir=" + outdir] + args + ["BuilderInd.tla"],
                               cwd=d, stdout=subprocess.PIPE, stderr=subprocess.STDOUT, text=True, timeout=900)
        except subprocess.TimeoutExpired:
            return dict(completed=False, reason="apalache timed out on " + name, obligations=done)
        noerr = "The outcome is: NoError" in p.stdout
        err = "The outcome is: Error" in p.stdout
        if not (noerr or err):
            # e.g. a type error after an edit of Builder.tla: the specification is broken, not the code
            raise ToolError("apalache gave no verdict on %s: %s" % (name, p.stdout[-600:]))
        if noerr != expect_ok:
            raise ToolError("Apalache obligation %s: expected %s, got %s" % (name, "NoError" if expect_ok else "Error", "NoError" if noerr else "Error"))
        done.append(name)
    subprocess.run(["rm", "-rf", os.path.join(verif.WORK, "apalache-out")])
    return dict(completed=True, obligations=done)


def check_builder_family(prop, tier):
    """C10, C13, C14, C17: builder state machines (spec/Builder.tla).
    MC_Builder: exhaustive call histories, properties as invariants, histories printed;
    the harness executes every history on the real builders and records observations;
    BuilderTrace: TLC validates the recorded behaviours (plus random long histories)."""
    t0 = time.time()
    conf = BUILDER_FAMILY[prop]
    thorough = tier == "thorough"
    r = builder_pipeline(prop, tier, conf)
    if prop == "C13":
        # time passes between the creation of the builder and build: the defaults stay those of the creation
        r2 = builder_pipeline(prop + "t", tier, dict(fam="c13t", rnd=(0, 0), nonce=(0, 0), whys=("C13",), deep=False))
        for k in ("states", "transitions", "nbeh", "n", "nbuilds", "other"):
            r[k] += r2[k]
        r["violations"] += [dict(v, props=["C13"]) for v in r2["violations"]]
        r["bad"] += r2["bad"]
        r["samples"] = r["samples"][:2] + r2["samples"][:1]
        r["twall"] += r2["twall"]
    fresh = verif.report(prop, r["violations"], tier)
    coverage = {
        "states": r["states"],
        "transitions": r["transitions"],
        "traces_validated_against_impl": r["n"],
        "samples": r["samples"],
        "evaluations": r["nbuilds"],
        "distinct_nontrivial": r["n"],
        "rule": "MC_Builder (%s) enumerates every builder call history up to the configured length (%d histories ending in build "
                "printed); each is executed on the real builder for the protocols of the tier with concrete keys/values; plus %d "
                "random histories (<= 40 calls)%s; one evaluation = one build call whose observed outcome (error + named key, or "
                "payload read back through GenericParser and projected, nonce identity) TLC checked against Builder.tla; distinct = "
                "recorded behaviours (one builder object each)" % (conf["fam"], r["nbeh"], conf["rnd"][1 if thorough else 0],
                                               (" and %d builds per local protocol and layer for nonce freshness/statistics" % conf["nonce"][1 if thorough else 0]) if conf["nonce"][0] else ""),
        "tlc_invariants": "Inv_DupIff, Inv_DupSticky, Inv_ExpDefault, Inv_Counter",
        "rejected_behaviours": len(r["bad"]),
        "rejected_for_other_properties": r["other"],
        "observed_outcomes": r.get("outcomes", {}),
        "trace_validation_wall_s": round(r["twall"], 1),
        "exhaustive": False,
    }
    if thorough and prop in ("C13", "C17"):
        # model level, unbounded histories: inductive invariant discharged with Apalache
        coverage["unbounded_model_induction"] = apalache_builder_induction()
    verif.write_evidence(prop, tier, coverage, BUILDER_ASSUMPTIONS + CORE_ASSUMPTIONS[:1], time.time() - t0, len(r["violations"]))
    return 1 if fresh > 0 else 0


PARSER_FAMILY = {
    "C15": dict(fam="c15", whys=("C15",)),
    "C16": dict(fam="c16", whys=("C16",)),
    "C11": dict(fam="c11", whys=("C11",)),
    "C12": dict(fam="c11", whys=("C12",)),
}

PARSER_ASSUMPTIONS = [
    "time classes keep margins (past <= now-2s, future >= now+60s): the wall clock never decides",
    "HashMap iteration order is treated as nondeterminism: an observation is accepted iff some processing order explains it",
    "the default exp/nbf validators are closures of the library; their calls cannot be logged, only their verdict is observed",
]


def parser_pipeline(prop, tier, fam, whys, sweep=0, cfgname=None, need=('"res":"ok"', '"res":"claim"')):
    thorough = tier == "thorough"
    cfg = "MC_Parser_%s%s.cfg" % (cfgname or fam, "_thorough" if thorough else "")
    res = verif.run_tlc("MC_Parser.tla", cfg, workers=8, timeout=3000)
    verif.require_model_ok(res, cfg)
    behs = verif.printed_records(res["out"], "BEH")
    toks = verif.printed_records(res["out"], "TOKS")
    if not behs or not toks:
        raise ToolError("MC_Parser printed no behaviours")
    nsim = 0
    simcfg = None
    if cfgname is None and fam != "c11t":
        # derived from the configuration just checked (same family, same token table): longer histories
        import re as _re
        text = open(os.path.join(verif.SPEC, "mc", cfg)).read()
        text = _re.sub(r"MaxCfg = \d+", "MaxCfg = 6", text)
        text = _re.sub(r"MaxParse = \d+", "MaxParse = 4", text)
        text = text.replace("Reconfigure = FALSE", "Reconfigure = TRUE")
        text = "\n".join(l for l in text.splitlines() if "Inv_ParsePure" not in l and not l.startswith("PROPERTIES")) + "\n"
        os.makedirs(os.path.join(verif.WORK, "tlc"), exist_ok=True)
        simcfg = os.path.join(verif.WORK, "tlc", cfg.replace(".cfg", "_sim_%d.cfg" % os.getpid()))
        open(simcfg, "w").write(text)
    if simcfg:
        # longer histories of the same family (up to 6 configuration calls and 4 parses, reconfiguration
        # between parses): random behaviours drawn by TLC in simulation mode, invariants checked on each
        sres = verif.run_tlc("MC_Parser.tla", simcfg, workers=2, timeout=1800, depth=10,
                             simulate="num=%d" % (60 if not thorough else 1500), tag="MC_Parser-%s-sim" % fam)
        if sres["violated"]:
            raise ToolError("MC_Parser simulation (%s) reported %s" % (simcfg, sres["violated"]))
        if verif.printed_records(sres["out"], "TOKS")[:1] != toks[:1]:
            raise ToolError("token tables of %s and %s differ" % (cfg, simcfg))
        seen = set(json.dumps(b, sort_keys=True) for b in behs)
        for b in verif.printed_records(sres["out"], "BEH"):
            key = json.dumps(b, sort_keys=True)
            if key not in seen and len(b["ops"]) >= 5:
                seen.add(key)
                behs.append(b)
                nsim += 1
        # one parser object used many times: up to 48 parses after up to 3 configuration calls (only the
        # maximal histories are kept - TLC prints every prefix that ends in a parse)
        ltext = _re.sub(r"MaxCfg = \d+", "MaxCfg = 3", _re.sub(r"MaxParse = \d+", "MaxParse = 48", text))
        lcfg = simcfg.replace("_sim_", "_long_")
        open(lcfg, "w").write(ltext)
        lres = verif.run_tlc("MC_Parser.tla", lcfg, workers=1, timeout=1800, depth=52,
                             simulate="num=%d" % (12 if not thorough else 200), tag="MC_Parser-%s-long" % fam)
        if lres["violated"]:
            raise ToolError("MC_Parser simulation (%s) reported %s" % (lcfg, lres["violated"]))
        longs = sorted((b for b in verif.printed_records(lres["out"], "BEH")), key=lambda b: -len(b["ops"]))
        kept = []
        for b in longs:
            if not any(k["ops"][:len(b["ops"])] == b["ops"] for k in kept):
                kept.append(b)
        behs.extend(kept)
        nsim += len(kept)
    beh_path = os.path.join(verif.WORK, "pbeh_%s_%s.ndjson" % (prop, tier))
    toks_path = os.path.join(verif.WORK, "ptoks_%s_%s.json" % (prop, tier))
    verif.write_ndjson(beh_path, behs)
    json.dump(toks[0], open(toks_path, "w"))
    trace = os.path.join(verif.WORK, "ptrace_%s_%s.ndjson" % (prop, tier))
    args = ["run-parser", "--behaviours", beh_path, "--toks", toks_path, "--family", fam, "--tier", tier,
            "--seed", str(verif.seed()), "--out", trace]
    if sweep:
        args += ["--sweep-stride", str(sweep)]
    if cfgname in ("c16r", "c16pr"):
        args += ["--all-protos"]     # small families: every history on all eight protocols
    verif.run_pv(args, timeout=7200)
    n, bad, tres = validate_trace("ParserTrace.tla", "ParserTrace.cfg", trace, timeout=7000)
    violations = []
    other = 0
    if bad:
        lines = open(trace).read().split("\n")
        conc = open(trace + ".conc").read().split("\n")
        for b in bad:
            if not any(w in b["why"] for w in whys):
                other += 1
                if other <= 5:
                    log("note: behaviour %s rejected for another property: %s" % (b["id"], b["why"]))
                continue
            rec = json.loads(lines[b["line"] - 1])
            try:
                cc = json.loads(conc[b["line"] - 1])
            except Exception:
                cc = None
            violations.append({"props": [prop[:3]], "what": "%s (behaviour %s, call %d)" % (b["why"], b["id"], b["step"]),
                               "replay": {"kind": "parser-trace", "id": b["id"], "pr": rec["pr"], "layer": rec["layer"],
                                          "failing_call": b["step"], "why": b["why"], "behaviour": rec, "concrete_tokens": cc,
                                          "reproduce": "pv " + " ".join(args) + " ; validate with spec/trace/ParserTrace.tla"}})
    nparse = 0
    sample = []
    hist = {}
    with open(trace) as f:
        for i, line in enumerate(f):
            nparse += line.count('"op":"parse"')
            for key in ('"res":"ok"', '"res":"pre"', '"res":"claim"', '"res":"json"', '"res":"late"', '"errkind":"missing"', '"errkind":"mismatch"', '"errkind":"validator"'):
                hist[key] = hist.get(key, 0) + line.count(key)
            if i in (0, n // 2, n - 1):
                smp = json.loads(line)
                if len(smp.get("ops", [])) > 8:
                    smp["ops"] = smp["ops"][:8] + ["... %d more calls" % (len(smp["ops"]) - 8)]
                    smp["toks"] = smp["toks"][:8] + ["..."]
                sample.append(smp)
    # (a run that found violations is not vacuous: the missing outcome class may be the defect itself)
    if not bad and any(hist.get(k, 0) == 0 for k in need):
        raise ToolError("vacuous parser run (%s): observed outcomes %s" % (fam, hist))
    if hist.get('"res":"late"', 0) > n // 2:
        raise ToolError("the machine was too slow for the time-passing histories: %d late parses" % hist['"res":"late"'])
    return dict(states=res["distinct"], transitions=res["states"], nbeh=len(behs), n=n, bad=bad, violations=violations,
                other=other, nparse=nparse, samples=sample, twall=tres["wall"], outcomes=hist, nsim=nsim)


def check_parser_family(prop, tier):
    """C11, C12, C15, C16: parser state machines composed with the token model
    (spec/Parser.tla EXTENDS Core). MC_Parser: exhaustive configuration x parse histories,
    properties as invariants; every history is executed on the real parsers; ParserTrace:
    TLC validates every recorded observation (outcome, named claim, validator calls)."""
    t0 = time.time()
    conf = PARSER_FAMILY[prop]
    thorough = tier == "thorough"
    sweep = 0
    if conf["fam"] == "c11":
        sweep = 1 if thorough else 64
    r = parser_pipeline(prop, tier, conf["fam"], conf["whys"], sweep)
    if conf["fam"] == "c11":
        # time passes inside a parser history: tokens that expire / become valid between two parses
        r2 = parser_pipeline(prop + "t", tier, "c11t", conf["whys"])
        for k in ("states", "transitions", "nbeh", "n", "nparse", "other"):
            r[k] += r2[k]
        r["violations"] += r2["violations"]
        r["bad"] += r2["bad"]
        r["samples"] = r["samples"][:2] + r2["samples"][:1]
        r["twall"] += r2["twall"]
    if conf["fam"] in ("c15", "c16"):
        # the same histories on PasetoParser (delegation to the generic parser, default validators present)
        r2 = parser_pipeline(prop + "p", tier, conf["fam"] + "p", conf["whys"])
        for k in ("states", "transitions", "nbeh", "n", "nparse", "other"):
            r[k] += r2[k]
        r["violations"] += r2["violations"]
        r["bad"] += r2["bad"]
        r["samples"] = r["samples"][:2] + r2["samples"][:1]
        r["twall"] += r2["twall"]
    if conf["fam"] == "c15":
        # PasetoParser::check_claim with custom claims (its own code path to the generic parser)
        r3 = parser_pipeline(prop + "pc", tier, "c15pc", conf["whys"], cfgname="c15pc")
        for k in ("states", "transitions", "nbeh", "n", "nparse", "other"):
            r[k] += r3[k]
        r["violations"] += r3["violations"]
        r["bad"] += r3["bad"]
        r["twall"] += r3["twall"]
    if conf["fam"] == "c16":
        # one parser object, the same token presented again (other key, after a footer change, after a
        # tampered copy): every history of up to 3 parses over a small token table, both parser layers
        for cn in ("c16r", "c16pr"):
            r3 = parser_pipeline(prop + cn[3:], tier, "c16" if cn == "c16r" else "c16p", conf["whys"], cfgname=cn)
            for k in ("states", "transitions", "nbeh", "n", "nparse", "other"):
                r[k] += r3[k]
            r["violations"] += r3["violations"]
            r["bad"] += r3["bad"]
            r["twall"] += r3["twall"]
    fresh = verif.report(prop, r["violations"], tier)
    coverage = {
        "states": r["states"],
        "transitions": r["transitions"],
        "traces_validated_against_impl": r["n"],
        "samples": r["samples"],
        "evaluations": r["nparse"],
        "distinct_nontrivial": r["n"],
        "rule": "MC_Parser (%s) enumerates every parser configuration history x parse sequence within its bounds (%d histories "
                "printed); each is executed on the real parser for the protocols of the tier with tokens crafted through the core "
                "layer%s; one evaluation = one parse call whose observation (outcome class, named claim, logged validator calls) "
                "TLC checked against Parser.tla/Core.tla; distinct = recorded behaviours (one parser object each)"
                % (conf["fam"], r["nbeh"], (", plus the rendering space of past/future instants (2879 UTC offsets x 0-9 fraction digits x "
                   "T/space x 4 instants, stride %d on v4.local) in parser objects of 100 parses" % sweep) if sweep else ""),
        "tlc_invariants": "Inv_ExpectIff, Inv_Validators, Inv_ExpRejects, Inv_NbfRejects, Inv_Allowed, Inv_ParsePure",
        "rejected_behaviours": len(r["bad"]),
        "rejected_for_other_properties": r["other"],
        "observed_outcomes": r.get("outcomes", {}),
        "trace_validation_wall_s": round(r["twall"], 1),
        "exhaustive": False,
    }
    verif.write_evidence(prop, tier, coverage, PARSER_ASSUMPTIONS + CORE_ASSUMPTIONS[:1], time.time() - t0, len(r["violations"]))
    return 1 if fresh > 0 else 0


def check_shapes(prop, tier):
    """C09: MC_Shapes enumerates every token shape (segments x header x decoded length 0..400 x
    canonical x footer segment) and proves on the model that every entry point answers with a
    format/authentication error; every shape is replayed against all 24 entry points."""
    t0 = time.time()
    res = verif.run_tlc("MC_Shapes.tla", "MC_Shapes.cfg" if tier == "quick" else "MC_Shapes_thorough.cfg", workers=8, timeout=3000)
    verif.require_model_ok(res, "MC_Shapes")
    shapes = verif.printed_records(res["out"], "SHAPE")
    hexc = verif.printed_records(res["out"], "HEX")
    if not shapes or not hexc:
        raise ToolError("MC_Shapes printed no cases")
    sp = os.path.join(verif.WORK, "shapes_%s.ndjson" % tier)
    hp = os.path.join(verif.WORK, "hex_%s.json" % tier)
    verif.write_ndjson(sp, shapes)
    json.dump(hexc[0], open(hp, "w"))
    out = os.path.join(verif.WORK, "replay_C09_%s.json" % tier)
    verif.run_pv(["replay-shapes", "--shapes", sp, "--hex", hp, "--tier", tier, "--seed", str(verif.seed()), "--out", out], timeout=7200)
    s = _summary(out)
    # a panic observed by any other replay is also a C09 violation; the core replay reports those under C09 as well
    fresh = verif.report(prop, s["violations"], tier)
    coverage = {
        "states": res["distinct"],
        "transitions": res["states"],
        "traces_validated_against_impl": s["shapes"],
        "samples": s["samples"] or [shapes[0]],
        "evaluations": s["evaluations"],
        "distinct_nontrivial": s["distinct"],
        "rule": "MC_Shapes: every (header in 8 protocols + wrong, segment count 0..6, decoded payload length 0..400, canonical / "
                "non-canonical, footer segment none/matching/other; thorough: length 0..1000) - %d shapes, NoPanic/NoOk proved on the model for all entry points; "
                "each shape instantiated with zero/0xff/random bytes and presented to 8 protocols x 3 layers x {no, matching} expected "
                "footer under catch_unwind; plus every prefix of authentic tokens, random Unicode with 0..6 dots, runs of dots, 1 MiB "
                "inputs; plus Key::<N>::try_from(hex) for N in {24,32,48,49,64} x every length 0..200 x {hex, non-hex} (%d cases); "
                "one evaluation = one call of one entry point; distinct = distinct input strings" % (len(shapes), s["hex_cases"]),
        "tlc_invariants": "Inv_NoPanicNoOk",
        "exhaustive": False,
    }
    verif.write_evidence(prop, tier, coverage, CORE_ASSUMPTIONS[:2] + ["catch_unwind observes every panic of the code under test (panic=unwind build)"],
                         time.time() - t0, s["nviol"])
    return 1 if fresh > 0 else 0


def check_terms(prop, tier):
    """C08: the specification's term trees (MC_Terms) interpreted by the term evaluator,
    pinned to the official vectors, compared with the library over the C01/C02 input space."""
    t0 = time.time()
    res = verif.run_tlc("MC_Terms.tla", "MC_Terms.cfg", workers=1, timeout=600)
    verif.require_model_ok(res, "MC_Terms")
    terms = verif.printed_records(res["out"], "TERMS")
    if not terms:
        raise ToolError("MC_Terms printed no terms")
    tp = os.path.join(verif.WORK, "terms_%s.json" % tier)
    json.dump(terms[0], open(tp, "w"))
    out = os.path.join(verif.WORK, "c08_%s.json" % tier)
    import subprocess
    p = subprocess.run([verif.PV, "eval-terms", "--terms", tp, "--vectors", os.path.join(verif.ROOT, "fixtures", "vectors.json"),
                        "--tier", tier, "--seed", str(verif.seed()), "--out", out], stdout=subprocess.PIPE, stderr=subprocess.PIPE, text=True, timeout=7200)
    if p.returncode == 3:
        raise ToolError("the term evaluator is not pinned to the official vectors (oracle defect, not a violation): " + p.stderr[-1500:])
    if p.returncode not in (0, 1):
        raise ToolError("pv eval-terms failed: " + p.stderr[-1500:])
    s = _summary(out)
    # the footer-segment iff part is shared with the minted-token checks of C05
    out2 = os.path.join(verif.WORK, "minted_C08_%s.json" % tier)
    verif.run_pv(["minted-checks", "--prop", "C05", "--tier", tier, "--seed", str(verif.seed()), "--out", out2])
    s2 = _summary(out2)
    # "footer segment present iff the footer is non-empty" also for a core builder object that is re-used with
    # another footer (spec/CoreObj.tla histories, footer segment observed after every mint)
    co = coreobj_pipeline("C08", tier, terms=tp)
    if co["nmint"] and '"specof"' not in open(os.path.join(verif.WORK, "cotrace_C08_%s.ndjson" % tier)).read(200000):
        raise ToolError("core-object trace carries no specof field: the C08 comparison did not run")
    viol = s["violations"] + [dict(v, props=["C08"]) for v in s2["violations"]] + co["violations"]
    fresh = verif.report(prop, viol, tier)
    coverage = {
        "states": max(1, res["distinct"]),
        "transitions": max(1, res["states"]),
        "traces_validated_against_impl": s["distinct"],
        "samples": s["samples"] or [terms[0][0]["pr"]],
        "evaluations": s["evaluations"] + s2["evaluations"],
        "distinct_nontrivial": s["distinct"],
        "rule": "MC_Terms prints the term tree of the prescribed token for all 8 protocols (+ raw-wire-nonce variants of v1/v2, PAE expanded "
                "to LE64/concat); the evaluator, pinned to %d official vectors at the start of the run, builds the specification's token for "
                "every message length 0..=300 (thorough 600), block boundaries, 64 KiB, footers/assertions incl. lengths with bit 7 set, "
                "empty and non-ASCII, random keys and nonce seeds: local = byte-identical + library decrypts specification tokens; public = "
                "cross-verification both ways (+ s-negated ECDSA); one evaluation = one comparison / cross-verification; distinct = distinct "
                "(protocol, key, nonce, message, footer, assertion) inputs; plus %d produced tokens whose footer segment is checked"
                % (s["pinned_vectors"], s2["evaluations"]),
        "pinned_vectors": s["pinned_vectors"],
        "core_object_histories": co["n"], "core_object_mints_read_back": co["nmint"],
        "tlc_invariants": "Inv_Binds (every protocol's terms mention exactly the inputs it binds)",
        "exhaustive": False,
    }
    verif.write_evidence(prop, tier, coverage,
                         ["the evaluator shares primitive crates (hmac, sha2, hkdf, blake2, chacha20, aes, ed25519-dalek, p384, ring) with the library but no protocol code",
                          "official vectors (fixtures/vectors.json, extracted from the PASETO test-vector files shipped in the repository's tests): v1-v4 local 9 each, v2-v4 public 3 each; v1.public has no deterministic vector",
                          "TLA+ fixes the structure of the algorithm; primitive semantics come from the interpreter"],
                         time.time() - t0, s["nviol"] + len(s2["violations"]) + len(co["violations"]), level="exploration")
    return 1 if fresh > 0 else 0


def check_claims(prop, tier):
    """C18: claim constructors (spec/Claims.tla, MC_Claims) replayed against CustomClaim and the
    time-claim constructors."""
    t0 = time.time()
    res = verif.run_tlc("MC_Claims.tla", "MC_Claims.cfg", workers=1, timeout=900)
    verif.require_model_ok(res, "MC_Claims")
    o = res["out"]
    cases = {"keys": verif.printed_records(o, "KEYS")[0], "deco": verif.printed_records(o, "DECO")[0],
             "time": verif.printed_records(o, "TIME")[0], "typed": verif.printed_records(o, "TYPED")[0]}
    cp = os.path.join(verif.WORK, "claims_%s.json" % tier)
    json.dump(cases, open(cp, "w"))
    out = os.path.join(verif.WORK, "c18_%s.json" % tier)
    verif.run_pv(["replay-claims", "--cases", cp, "--tier", tier, "--seed", str(verif.seed()), "--out", out], timeout=3600)
    s = _summary(out)
    fresh = verif.report(prop, s["violations"], tier)
    coverage = {
        "states": max(1, res["distinct"]),
        "transitions": max(1, res["states"]),
        "traces_validated_against_impl": s["distinct"],
        "samples": s["samples"],
        "evaluations": s["evaluations"],
        "distinct_nontrivial": s["distinct"],
        "rule": "MC_Claims enumerates every string of length 1..4 over the 13 letters of the registered claim names (%d keys) with the "
                "result CustomClaim::try_from must give (invariant: exactly the seven names are refused), 12 decorations of each name, "
                "random Unicode keys; each key x 12 constructor-form/value-type combinations; time constructors x (&str, String) over "
                "upper-case RFC 3339 renderings (all offsets at stride, 0-9 fraction digits, leap second, years 0000/9999: must be kept "
                "verbatim, also through a built token) and strings not starting with an ISO 8601 date (must be refused); strings in "
                "between are not asserted; one evaluation = one constructor call; distinct = distinct input strings" % len(cases["keys"]),
        "tlc_invariants": "Inv_Exactly, Inv_Count",
        "exhaustive": False,
    }
    verif.write_evidence(prop, tier, coverage,
                         ["'does not start with an ISO 8601 date' is instantiated as: first four characters are not all ASCII digits and the string does not start with + or -"],
                         time.time() - t0, s["nviol"], level="exploration")
    return 1 if fresh > 0 else 0


def check_typing(prop, tier):
    """C19: the typing table (spec/Typing.tla) enumerated by TLC; one generated program per tuple
    compiled by rustc against the crate built from the working tree."""
    import typing_gen
    t0 = time.time()
    res = verif.run_tlc("MC_Typing.tla", "MC_Typing.cfg", workers=1, timeout=600)
    verif.require_model_ok(res, "MC_Typing")
    progs = verif.printed_records(res["out"], "PROGS")
    if not progs:
        raise ToolError("MC_Typing printed no programs")
    r = typing_gen.run(progs[0], tier)
    if r["generator_defects"]:
        raise ToolError("generated programs are rejected for reasons other than typing: %s" % r["generator_defects"][:3])
    fresh = verif.report(prop, r["violations"], tier)
    coverage = {
        "programs": r["n"],
        "disagreements_checked": r["n"],
        "samples": r["samples"],
        "states": max(1, res["distinct"]),
        "transitions": max(1, res["states"]),
        "traces_validated_against_impl": r["n"],
        "evaluations": r["n"],
        "distinct_nontrivial": r["n"],
        "rule": "every (operation, token protocol X, key protocol Y) with 12 operations x 8 x 8, set_implicit_assertion on 5 types x 8 "
                "protocols, key/nonce constructors x 8 protocols x Key<N>, N in {24,32,48,49,64} - enumerated by TLC with the expected "
                "verdict; one generated Rust function per tuple (types carried by parameters) compiled with rustc --emit=metadata; a "
                "disagreement in either direction is a violation; rejected programs must fail with a type error code "
                "(E0308/E0599/E0277/E0271/E0061/E0107); %d accepted, %d rejected" % (r["accepted"], r["rejected"]),
        "exhaustive": True,
    }
    verif.write_evidence(prop, tier, coverage,
                         ["one-step model: the decision table is the specification; there is no history to explore",
                          "rustc accept/reject of a function body is the observation; programs are functions whose parameters carry the types"],
                         time.time() - t0, len(r["violations"]), level="exploration")
    return 1 if fresh > 0 else 0


def check_features(prop, tier):
    """C20: feature algebra extracted from the working tree (FeaturesGen.tla), explored by TLC
    (MC_Features); real `cargo check` of every configuration of the tier and smoke-program runs."""
    import features_gen
    import subprocess
    t0 = time.time()
    info = features_gen.write_gen(os.path.join(MC, "FeaturesGen.tla"))
    res = verif.run_tlc("MC_Features.tla", "MC_Features.cfg", workers=1, timeout=900)
    model_ok = res["ok"]
    fl = verif.printed_records(res["out"], "FLAGGED")
    flagged = fl[0]["flagged"] if fl else []
    nconf = fl[0]["n"] if fl else 0
    if not model_ok:
        log("note: MC_Features did not complete cleanly (extraction heuristic?): %s" % res["violated"])
    for f in flagged[:10]:
        log("model flags configuration %s (added to the real builds)" % f)
    from concurrent.futures import ThreadPoolExecutor
    with ThreadPoolExecutor(max_workers=2) as ex:
        fb = ex.submit(features_gen.run_builds, tier, flagged, 4 if tier == "quick" else 6)
        fs = ex.submit(features_gen.run_smoke, tier, flagged, 3 if tier == "quick" else 5)
        builds, base = fb.result()
        smokes = fs.result()
    subprocess.run(["rm", "-rf", base])
    violations = []
    for r in builds + smokes:
        if not r["ok"]:
            what = ("configuration %s does not compile (%s)" % (",".join(r["features"]) or r["kind"], r["errors"])) if r["kind"] != "smoke" else \
                   ("smoke program under %s: not every enabled protocol round-trips" % ",".join(r["features"]))
            violations.append({"props": [prop], "what": what,
                               "replay": {"kind": "features", "step": r["kind"], "features": r["features"], "output": r["tail"],
                                          "reproduce": ("cd /repo && cargo check --offline --lib --no-default-features --features " + ",".join(r["features"])) if r["kind"] == "check"
                                          else ("cd /verif/harness/smoke && cargo run --offline --no-default-features --features " + ",".join(r["features"]))}})
    # additivity: a configuration that compiles while a subset does not / a superset fails
    okset = {tuple(sorted(r["features"])): r["ok"] for r in builds if r["kind"] == "check"}
    fresh = verif.report(prop, violations, tier)
    samples = [{"features": r["features"], "step": r["kind"], "ok": r["ok"]} for r in (builds[:3] + smokes[:3])]
    coverage = {
        "evaluations": len(builds) + len(smokes),
        "distinct_nontrivial": len(okset) + len(smokes),
        "rule": "feature table, optional dependencies and #[from] gates extracted from the working tree (%d features, %d #[from] variants); "
                "TLC evaluates closure / coherence-conflict / dependency predicates over all %d documented configurations (model flags %d; "
                "flagged ones are added to the builds); real builds: cargo check --lib for %s x 3 layers + default + none (%d checks), "
                "smoke program (one round trip per enabled protocol at the enabled layer) for singletons x 3 layers, the full set x 3 "
                "layers, default%s (%d runs); distinct = distinct feature sets built"
                % (len(info["features"]), len(info["from_variants"]), nconf, len(flagged),
                   "all 255 non-empty protocol subsets" if tier == "thorough" else "8 singletons, 28 pairs, the full set",
                   len(builds), ", all pairs x 3 layers and larger subsets" if tier == "thorough" else "", len(smokes)),
        "samples": samples,
        "model_configurations": nconf,
        "model_flagged": flagged[:20],
        "model_completed": model_ok,
        "cargo_checks": len(builds),
        "smoke_runs": len(smokes),
        "exhaustive": tier == "thorough",
    }
    verif.write_evidence(prop, tier, coverage,
                         ["one-step model (closure function); TLC enumerates, cargo decides",
                          "cargo check of the library (not of examples/tests) is the compile oracle; the smoke program is the run oracle"],
                         time.time() - t0, len(violations), level="exploration")
    return 1 if fresh > 0 else 0


REGISTRY = {}
REGISTRY["C20"] = check_features
REGISTRY["C19"] = check_typing
REGISTRY["C18"] = check_claims
REGISTRY["C08"] = check_terms
REGISTRY["C09"] = check_shapes
for _p in ("C11", "C12", "C15", "C16"):
    REGISTRY[_p] = check_parser_family
for _p in ("C10", "C13", "C14", "C17"):
    REGISTRY[_p] = check_builder_family
for _p in ("C01", "C02", "C03", "C04", "C05", "C06", "C07"):
    REGISTRY[_p] = check_core_family
