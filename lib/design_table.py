#!/usr/bin/env python3
"""Prints the quick-tier volume column of DESIGN.md section 0.3b from the committed evidence files."""
import json, os, sys
root = os.path.dirname(os.path.dirname(os.path.abspath(__file__)))
for i in range(1, 21):
    p = os.path.join(root, "evidence", "C%02d.json" % i)
    if not os.path.exists(p):
        continue
    e = json.load(open(p))
    c = e["coverage"]
    extra = []
    for k in ("core_object_histories", "builder_histories_executed", "parser_histories_executed", "parser_parses", "concrete_tokens"):
        if k in c:
            extra.append("%s=%s" % (k, c[k]))
    print("C%02d tier=%s states=%s behaviours=%s evaluations=%s wall=%ss %s" % (
        i, e["tier"], c.get("states"), c.get("traces_validated_against_impl"), c.get("evaluations"), e["wall_s"], " ".join(extra)))
