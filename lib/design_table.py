#!/usr/bin/env python3
"""Rewrites the table of DESIGN.md section 0.3b from the committed evidence files (quick tier)."""
import json, os, re
root = os.path.dirname(os.path.dirname(os.path.abspath(__file__)))
DESC = {
 "C01": ("MC_Core `Inv_All` + MC_CoreObj (incl. `clone`) + MC_Builder c13, c05b, c05g", "replay of unaltered-token cases over lengths 0..192, boundaries, 64 KiB (JSON at the parser layers above 1 000 bytes too); CoreObjTrace; BuilderTrace (`FootBound` / `AssertBound`, matching parser + `PasetoParser::default()` read-back)"),
 "C02": ("as C01 for the public protocols", "as C01; RSA fixtures, Ed25519 / P-384 pairs from seeds, keys built through every constructor route"),
 "C03": ("MC_Core + simulation (<= 4 edits) + MC_B64", "replay: every bit / character / truncation length / compensating change, 3 layers, counting validator, priming with the authentic token, rejections repeated"),
 "C04": ("MC_Core + MC_Parser c04 (two parses, two keys)", "replay with 256 seed neighbours, zero / ones / random keys, every single-bit neighbour of the Ed25519 / P-384 / RSA public key bytes, RSA key in non-encodings; primed and repeated; ParserTrace"),
 "C05": ("MC_Core (footer matrix + foot-* edits) + CoreObj + MC_Builder c13 / c05b / c05g + MC_Parser c05 / c05p (`Inv_FootAssert`)", "replay over 29 footer pairs (prefix / extension / case / whitespace / '-' '_' / nested JSON / 255-256 / 65535-65536 bytes) incl. the accepting side; 2 048 wrong footers per protocol; independent base64url oracle on minted tokens; traces"),
 "C06": ("MC_Core (assertion matrix, `Hidden`) + MC_Pae + CoreObj + builder / parser families as C05", "replay; 2 048 wrong assertions per protocol; absence scan of the assertion (all base64 alignments), length independence; traces"),
 "C07": ("MC_Core (all 56 pairs verbatim + `relabel`) + MC_Parser c16r / c16pr", "replay through 24 entry points; re-parse histories with the relabelled copy of the accepted token on all protocols"),
 "C08": ("MC_Terms (term trees, `Inv_Binds`) + MC_CoreObj (`SegOK`, `SpecOK`)", "term evaluator pinned to 45 vectors; byte-identity / cross-verification; library vs vectors with hex keys; footer segment and specification token (`specof`) of every mint of re-used core builders"),
 "C09": ("MC_Shapes (93 834 shapes x 16 presentations, `Inv_NoPanicNoOk`)", "every shape x 48 entry-point calls under catch_unwind; prefixes, Unicode, multi-byte straddles, footer-content fuzz, 1 MiB; hex keys"),
 "C10": ("MC_Builder counter invariant", "BuilderTrace: nonce identity over long-lived objects (250 builds), footers of 0..1024 bytes and assertions, bit statistics and cross-thread distinctness in the spec"),
 "C11": ("MC_Parser c11 + c11t (clock) + simulated long histories", "ParserTrace; rendering space at stride 64 in 100-parse objects, wrap-point instants, implementation placeholders"),
 "C12": ("as C11 (`Inv_NbfRejects`)", "as C11"),
 "C13": ("MC_Builder c13 (`Inv_ExpDefault`) + c13t (time passes)", "BuilderTrace on all histories (v4) + short ones elsewhere + 2 000 random; creation-time bracket; Apalache induction (thorough)"),
 "C14": ("MC_Builder c14 (set / remove / extend / extend2)", "BuilderTrace with Unicode / pointer-like / padded / control-character keys, JSON trees, boundary scalars, wrapper-shaped values, time keys with null on the generic builder"),
 "C15": ("MC_Parser c15 + c15p + c15pc + simulated long histories", "ParserTrace; lossy-comparison value pairs, null projection, pointer-like / padded keys, wrapper-shaped expected values"),
 "C16": ("MC_Parser c16 + c16p + c16r + c16pr (`Inv_Validators`) + simulated long histories", "ParserTrace with logged validator calls; the library's placeholder claims; validators on exp / nbf themselves (generic)"),
 "C17": ("MC_Builder c17 (`Inv_DupIff`, `Inv_DupSticky`)", "BuilderTrace on all histories + random; Apalache induction (thorough)"),
 "C18": ("MC_Claims (30 940 keys, `Inv_Exactly`)", "constructor replay (12 forms) + time strings incl. calendar corners"),
 "C19": ("MC_Typing (948 tuples)", "one rustc compilation per tuple (continues when only the harness stops compiling)"),
 "C20": ("MC_Features on FeaturesGen (766 configurations)", "cargo checks + smoke runs (four token shapes per protocol, two P-384 key parities)"),
}
rows = ["| id | model / configuration | binding to the code | quick volume (committed evidence) |", "|---|---|---|---|"]
for i in range(1, 21):
    pid = "C%02d" % i
    e = json.load(open(os.path.join(root, "evidence", pid + ".json")))
    c = e["coverage"]
    vol = []
    if c.get("states"): vol.append("%s model states" % c["states"])
    if c.get("traces_validated_against_impl"): vol.append("%s behaviours / cases bound" % c["traces_validated_against_impl"])
    if c.get("evaluations"): vol.append("%s evaluations" % c["evaluations"])
    for k, lab in (("core_object_histories", "core-object histories"), ("builder_histories_executed", "builder histories"), ("parser_histories_executed", "parser histories")):
        if k in c: vol.append("%s %s" % (c[k], lab))
    vol.append("%.0f s" % e["wall_s"])
    rows.append("| %s | %s | %s | %s |" % (pid, DESC[pid][0], DESC[pid][1], ", ".join(vol)))
table = "\n".join(rows)
p = os.path.join(root, "DESIGN.md")
s = open(p).read()
a = s.index("### 0.3b Per property, as built")
b = s.index("### 0.4 Defects found")
head = "### 0.3b Per property, as built (quick tier; written by lib/design_table.py from evidence/)\n\n"
s = s[:a] + head + table + "\n\n" + s[b:]
open(p, "w").write(s)
print(table[:400])
