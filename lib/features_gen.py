"""C20: extracts the feature algebra of /repo's working tree and writes spec/mc/FeaturesGen.tla
(the constants of Features.tla) plus MC_Features; runs the real builds."""
import json
import os
import re
import subprocess
import tomllib
from concurrent.futures import ThreadPoolExecutor

import verif

REPO = "/repo"
PROTOS = ["v1_local", "v2_local", "v3_local", "v4_local", "v1_public", "v2_public", "v3_public", "v4_public"]
LAYERS = ["core", "generic", "batteries_included"]

# crates whose error types are re-exports of one another (signature::Error)
ALIASES = {"ed25519_dalek::ed25519::Error": "signature::Error", "p384::ecdsa::Error": "signature::Error"}


def cfg_to_tla(expr):
    """cfg predicate -> TLA+ boolean expression over the enabled set E"""
    expr = expr.strip()
    m = re.match(r'^feature\s*=\s*"([^"]+)"$', expr)
    if m:
        return '("%s" \\in E)' % m.group(1)
    for name, op in (("not", None), ("any", " \\/ "), ("all", " /\\ ")):
        if expr.startswith(name + "(") and expr.endswith(")"):
            inner = expr[len(name) + 1:-1]
            parts, depth, cur = [], 0, ""
            for ch in inner:
                if ch == "(":
                    depth += 1
                if ch == ")":
                    depth -= 1
                if ch == "," and depth == 0:
                    parts.append(cur)
                    cur = ""
                else:
                    cur += ch
            if cur.strip():
                parts.append(cur)
            if name == "not":
                return "(~%s)" % cfg_to_tla(parts[0])
            if not parts:
                return "FALSE" if name == "any" else "TRUE"
            return "(" + op.join(cfg_to_tla(p) for p in parts) + ")"
    if expr in ("test", "doc"):
        return "FALSE"
    return "TRUE"


def extract():
    cargo = tomllib.load(open(os.path.join(REPO, "Cargo.toml"), "rb"))
    feats = {k: list(v) for k, v in cargo.get("features", {}).items()}
    optional = [k for k, v in cargo.get("dependencies", {}).items() if isinstance(v, dict) and v.get("optional")]
    for o in optional:
        feats.setdefault(o, [])
    # "ring/std" style entries enable a feature of a dependency: keep the dependency name
    table = {}
    for k, v in feats.items():
        table[k] = sorted(set(x.split("/")[0].replace("dep:", "") for x in v))
    # #[from] variants of PasetoError
    src = open(os.path.join(REPO, "src/core/error.rs")).read()
    variants = []
    # split into variant chunks: attributes before `Name {` or `Name(` ... until the matching close
    body = src[src.index("pub enum PasetoError"):]
    chunks = re.split(r"\n  (?=#\[cfg\(|///|#\[error)", body)
    pending_cfg = "TRUE"
    for ch in chunks:
        mcfg = re.match(r'#\[cfg\((.*)\)\]\s*$', ch.strip().split("\n")[0]) if ch.strip().startswith("#[cfg(") else None
        name = re.search(r"\n?\s*([A-Z][A-Za-z0-9]+)\s*[\{\(]", ch)
        if ch.strip().startswith("#[cfg(") and not name:
            pending_cfg = cfg_to_tla(mcfg.group(1)) if mcfg else "TRUE"
            continue
        if not name:
            continue
        gate = pending_cfg
        if mcfg:
            gate = cfg_to_tla(mcfg.group(1))
        pending_cfg = "TRUE"
        mfrom = re.search(r"#\[from\]\s*(?://.*\n\s*)*source:\s*([A-Za-z0-9_:]+)", ch)
        mcond = re.search(r"#\[cfg_attr\((.*),\s*from\)\]\s*(?://.*\n\s*)*source:\s*([A-Za-z0-9_:]+)", ch)
        if mfrom:
            variants.append((name.group(1), mfrom.group(1), gate))
        elif mcond:
            variants.append((name.group(1), mcond.group(2), "(%s /\\ %s)" % (gate, cfg_to_tla(mcond.group(1)))))
    return table, optional, cargo.get("features", {}).get("default", []), variants


def tla_set(xs):
    return "{" + ", ".join('"%s"' % x for x in xs) + "}"


def write_gen(path):
    table, optional, default, variants = extract()
    lines = ["---------------------------- MODULE FeaturesGen ----------------------------",
             "\\* GENERATED from /repo's working tree by lib/features_gen.py - do not edit",
             "EXTENDS Naturals, FiniteSets, Sequences, TLC", ""]
    names = sorted(table.keys())
    lines.append("GenFeatureTable == " + " @@ ".join('("%s" :> %s)' % (k, tla_set(table[k])) for k in names))
    lines.append("GenProtocolFeatures == " + tla_set(PROTOS))
    lines.append("GenLayerFeatures == " + tla_set(LAYERS))
    lines.append("GenDefaultFeatures == " + tla_set(default))
    lines.append("GenOptionalDeps == " + tla_set(optional))
    lines.append("\\* From<source> is derived for variant name when Enabled(name, E) holds for the enabled set E")
    lines.append("GenFromVariants == " + tla_set([v[0] for v in variants]))
    lines.append("GenSource(v) == " + "CASE " + " [] ".join('v = "%s" -> "%s"' % (v[0], ALIASES.get(v[1], v[1])) for v in variants))
    lines.append("GenEnabled(v, E) == " + "CASE " + " [] ".join('v = "%s" -> %s' % (v[0], v[2]) for v in variants))
    lines.append("=============================================================================")
    open(path, "w").write("\n".join(lines) + "\n")
    return dict(features=table, optional=optional, default=default,
                from_variants=[dict(name=v[0], source=ALIASES.get(v[1], v[1]), gate=v[2]) for v in variants])


def feature_sets(tier, flagged):
    import itertools
    sets = []
    if tier == "thorough":
        for r in range(1, 9):
            for c in itertools.combinations(PROTOS, r):
                sets.append(list(c))
    else:
        sets += [[p] for p in PROTOS]
        sets += [list(c) for c in itertools.combinations(PROTOS, 2)]
        sets.append(list(PROTOS))
        for f in flagged:
            ps = sorted(x for x in f if x in PROTOS)
            if ps and ps not in sets:
                sets.append(ps)
    return sets


def cargo(args, target, timeout=1800):
    env = dict(os.environ, CARGO_NET_OFFLINE="true", CARGO_TARGET_DIR=target)
    p = subprocess.run(["cargo"] + args, cwd=REPO, env=env, stdout=subprocess.PIPE, stderr=subprocess.STDOUT, text=True, timeout=timeout)
    return p.returncode, p.stdout


def run_builds(tier, flagged, nslots=4):
    """cargo check of every configuration of the tier; returns list of results"""
    sets = feature_sets(tier, flagged)
    configs = []
    for ps in sets:
        for layer in LAYERS:
            configs.append(("check", ps + [layer]))
    configs.append(("check-default", []))
    configs.append(("check-none", []))
    base = os.path.join(verif.WORK, "c20-targets")
    os.makedirs(base, exist_ok=True)

    def worker(slot_configs):
        slot, items = slot_configs
        target = os.path.join(base, "slot%d" % slot)
        out = []
        for kind, feats in items:
            if kind == "check-default":
                args = ["check", "--offline", "--lib", "--quiet"]
            elif kind == "check-none":
                args = ["check", "--offline", "--lib", "--quiet", "--no-default-features"]
            else:
                args = ["check", "--offline", "--lib", "--quiet", "--no-default-features", "--features", ",".join(feats)]
            rc, text = cargo(args, target)
            errs = sorted(set(re.findall(r"error\[(E\d+)\]", text)))
            out.append(dict(kind=kind, features=feats, ok=(rc == 0), errors=errs,
                            tail="" if rc == 0 else "\n".join(l for l in text.splitlines() if "error" in l)[:1500]))
        return out

    slots = [(i, configs[i::nslots]) for i in range(nslots)]
    with ThreadPoolExecutor(max_workers=nslots) as ex:
        res = [r for chunk in ex.map(worker, slots) for r in chunk]
    return res, base


def run_smoke(tier, flagged, nslots=3):
    """cargo run of the smoke crate: every enabled protocol must round-trip"""
    import itertools
    runs = []
    for p in PROTOS:
        for layer in LAYERS:
            runs.append([p, layer])
    for layer in LAYERS:
        runs.append(list(PROTOS) + [layer])
    runs.append(["lib_default"])
    if tier == "thorough":
        for c in itertools.combinations(PROTOS, 2):
            for layer in LAYERS:
                runs.append(list(c) + [layer])
        for r in range(3, 8):
            for j, c in enumerate(itertools.combinations(PROTOS, r)):
                runs.append(list(c) + [LAYERS[j % 3]])
    for f in flagged:
        fs = sorted(x for x in f if x in PROTOS or x in LAYERS)
        if fs and fs not in runs:
            runs.append(fs)
    base = os.path.join(verif.WORK, "c20-targets")
    smoke_dir = os.path.join(verif.HARNESS, "smoke")

    def worker(slot_items):
        slot, items = slot_items
        target = os.path.join(base, "smoke%d" % slot)
        out = []
        for feats in items:
            env = dict(os.environ, CARGO_NET_OFFLINE="true", CARGO_TARGET_DIR=target)
            p = subprocess.run(["cargo", "run", "--offline", "--quiet", "--no-default-features", "--features", ",".join(feats)],
                               cwd=smoke_dir, env=env, stdout=subprocess.PIPE, stderr=subprocess.STDOUT, text=True, timeout=1800)
            m = re.search(r"smoke: (\d+) of (\d+) enabled protocols round-trip", p.stdout)
            nprot = len([f for f in feats if f in PROTOS]) if feats != ["lib_default"] else 2
            ok = p.returncode == 0 and m is not None and int(m.group(1)) == int(m.group(2)) == nprot
            out.append(dict(kind="smoke", features=feats, ok=ok, roundtrips=int(m.group(1)) if m else 0,
                            tail="" if ok else "\n".join(p.stdout.splitlines()[-12:])[:1500]))
        return out

    slots = [(i, runs[i::nslots]) for i in range(nslots)]
    with ThreadPoolExecutor(max_workers=nslots) as ex:
        res = [r for chunk in ex.map(worker, slots) for r in chunk]
    return res
