#!/usr/bin/env python3
"""Regenerates /verif/MANIFEST.json from the table below (single source, keeps it valid)."""
import json
import os

ROOT = os.path.dirname(os.path.dirname(os.path.abspath(__file__)))
props = [json.loads(l)["id"] for l in open(os.path.join(ROOT, "properties.jsonl"))]

CORE_NOTE = ("Trusted base: TLC; the symbolic (Dolev-Yao) reading of the primitives - MAC/AEAD/signature "
             "unforgeability, distinct terms are distinct bytes; the primitive crates; the harness wrappers "
             "(harness/src/api.rs) which only route calls to the public API. The binding of model to code is the "
             "replay: every behaviour TLC prints is executed against the library built from /repo's working tree.")

CLAIMED = {
    "C01": dict(
        text="TLC checks RoundTrip/AcceptIff on every reachable token state of spec/Core.tla (all 8 protocols x footer x "
             "assertion x every presentation); every unaltered-token behaviour TLC prints is replayed against the real "
             "try_encrypt/try_decrypt and the generic/prelude parsers for every message length 0..=192 (thorough 0..=1024), "
             "block boundaries, 64 KiB, multi-byte/NUL/'.' content, special keys and nonce seeds; every call history (<= 4/5 calls) of one core "
             "builder object is executed and each minted token read back under a presentation matrix (CoreObj.tla, trace-validated); "
             "builder histories of MC_Builder are executed on all protocols and every built token must be readable by the matching parser "
             "and, for PasetoBuilder, by PasetoParser::default(); families c05b/c05g add set_footer / set_implicit_assertion histories with two values and the "
             "empty string: the token must authenticate under the pair set last (FootBound / AssertBound).",
        ref="5 C01", tech="TLA+ token life-cycle model (TLC, exhaustive) + spec->impl replay with length/content sweep"),
    "C02": dict(
        text="As C01 for try_sign/try_verify (incl. core builder object histories and builder->parser round trips): RSA-2048 (4 fixture "
             "pairs), Ed25519 and P-384 pairs derived from random seeds.",
        ref="5 C02", tech="TLA+ token life-cycle model (TLC, exhaustive) + spec->impl replay over generated key pairs"),
    "C03": dict(
        text="TLC proves Integrity on the model for every edit kind of the adversary alphabet (flip/truncate/extend/insert/"
             "splice of two authentic tokens/re-encode/non-canonical base64/header/footer-segment edits/relabel) under all "
             "256 presentations; each edited-token behaviour is replayed with the edit expanded to all bit positions, "
             "character substitutions, every truncation length, boundary shifts and compensating changes (double flips, swaps, reversal) of concrete "
             "tokens, through core, generic and prelude layers with a counting validator; the authentic token is accepted immediately before the first "
             "altered ones (priming) and rejections are presented twice; plus random behaviours with up to 4 successive edits from TLC simulation mode; the "
             "byte-level lemma B64.tla (canonical base64url <-> bytes bijection) is model-checked in the same run.",
        ref="5 C03", tech="TLA+ adversary model (TLC) + exhaustive-position mutation replay against the library"),
    "C04": dict(
        text="KeyBound/AcceptIff on the model; replay with the second key instantiated by all 256 single-bit neighbours, "
             "all-zero, all-one and random keys (asymmetric: the neighbouring seed's key pair, every single-bit neighbour of the Ed25519 / P-384 / RSA "
             "public key bytes, the RSA key inside non-encodings), all protocols and layers, each wrong-key presentation primed by an acceptance under the "
             "right key and repeated; the parser-history model (MC_Parser) adds re-presentation of the same token to one parser object under another key.",
        ref="5 C04", tech="TLA+ model (TLC) + key-neighbourhood replay + parser call-history replay"),
    "C05": dict(
        text="FooterBound/AcceptIff/FooterSeg over the full footer x expected-footer matrix and the footer-segment edit kinds; "
             "replay with prefix/extension/case/last-base64-char footer pairs; every produced token's 4th segment is compared "
             "with an independently written base64url encoder; core builder object histories (CoreObj) cover footers set and changed between mints; families c05b/c05g (both builders) and c05/c05p "
             "(both parsers) explore set_footer / set_implicit_assertion with two values and the empty string, reconfigured between builds / parses: "
             "the built token must be bound to the footer set last (FootBound), a parser authenticates iff its last footer matches (Inv_FootAssert).",
        ref="5 C05", tech="TLA+ model (TLC) + footer-pair matrix replay + independent base64url oracle"),
    "C06": dict(
        text="AssertBound/AcceptIff/Hidden for v3/v4; replay over assertion pairs incl. prefix/extension; direct checks that "
             "token length is independent of the assertion and its bytes (all base64 alignments) never occur in the token; the byte-level "
             "lemma Pae.tla (PAE injective, same-concatenation-different-split) is model-checked in the same run; core builder object "
             "histories (CoreObj) cover assertions set and changed between mints; families c05b/c05g and c05/c05p (see C05) do the same for "
             "set_implicit_assertion on builders (AssertBound) and parsers (Inv_FootAssert), v3/v4, incl. resetting to the empty string.",
        ref="5 C06", tech="TLA+ model (TLC, Clear() term analysis) + assertion-pair matrix replay + absence scan"),
    "C07": dict(
        text="ProtoBound over all 56 ordered protocol pairs, verbatim and relabelled, same key bytes where both protocols accept them; "
             "replay through all 24 entry points; re-parse histories (MC_Parser c16r / c16pr) show a parser that has just accepted a token the same "
             "token under another protocol's header.",
        ref="5 C07", tech="TLA+ model (TLC) over all protocol pairs + relabel replay"),
}

BUILDER_NOTE = ("Trusted base: TLC; the harness projection of concrete payloads to abstract values (serde_json equality, default "
                "timestamps recognised by a wall-clock bracket and exp - iat = 3600 s); the read-back through GenericParser; "
                "randomness bounds with false-alarm probability < 2^-64. Binding: every history TLC prints is executed on the "
                "real builders and every observation is validated by TLC against spec/Builder.tla (BuilderTrace).")
PARSER_NOTE = ("Trusted base: TLC; Core.tla's symbolic reading of the primitives (the parser model calls Core!Present); the harness "
               "projection of validator-call values and error variants; time classes with margins (>= 60 s, <= -2 s). Binding: every "
               "history TLC prints is executed on the real parsers with tokens crafted through the core layer and every observation "
               "is validated by TLC against spec/Parser.tla (ParserTrace); HashMap order is nondeterminism in the specification.")

CLAIMED.update({
    "C10": dict(
        text="Builder.tla draws a fresh nonce per successful build (counter invariant); the binding is trace validation: the harness "
             "numbers the wire nonce of every built token by first occurrence and BuilderTrace requires each build to carry a new "
             "one - repeated builds from one builder object (250 per object), fresh builders, identical and varying claims, all four "
             "local protocols, generic and prelude layers; per-bit frequencies of all nonces are checked inside the specification "
             "against a Hoeffding bound (false alarm < 2^-64); footers of 0..1024 bytes and assertions vary between builder objects; 8 threads build concurrently from separate builders and the union of their nonces must be duplicate-free (xthread record). Unpredictability in the cryptographic sense is not decidable here.",
        ref="5 C10", tech="TLA+ builder model + trace validation of recorded build histories (nonce identity, bit statistics)", note=BUILDER_NOTE),
    "C13": dict(
        text="MC_Builder explores every PasetoBuilder call history over {set exp/iat/nbf/custom, acknowledge, set_footer, "
             "set_implicit_assertion, build} to length 6 (thorough 7) with ExpDefault as invariant; every history is executed on the "
             "real builder (all histories on v4, short ones on the other protocols) and every built payload, read back and projected "
             "to default/caller values, is validated by TLC, as is the verdict of PasetoParser::default() on every built token; plus "
             "random histories up to 40 calls; family c13t lets time pass between calls (tick = real sleep; the builder state must not change and iat/nbf/exp defaults must lie in the bracket of the builder's creation, exp = iat + 1 h); thorough: the inductive invariant of the builder model is discharged with Apalache "
             "(unbounded histories, model level).",
        ref="5 C13", tech="TLA+ builder state machine (TLC, exhaustive histories) + trace validation of executed histories", note=BUILDER_NOTE),
    "C14": dict(
        text="GenericBuilder histories over set_claim/remove_claim (3 keys x 2 values, length 5/6) with the claim map as state; "
             "executed with Unicode/escaped/1 KiB keys, JSON trees incl. wrapper-like objects, typed and user-defined claims; the "
             "parsed object must project exactly onto the model's claim map (no other member).",
        ref="5 C14", tech="TLA+ builder state machine (TLC) + trace validation with rich JSON concretisation", note=BUILDER_NOTE),
    "C17": dict(
        text="MC_Builder over the 12-action alphabet (9 keys, acknowledge, set_footer, build) to length 5 (thorough 6) with DupIff and "
             "DupSticky as invariants; all 22 621 histories ending in build executed on the real PasetoBuilder; the named key must be a "
             "repeated one; exp-after-acknowledgement may be refused or ignored; random histories to length 40.",
        ref="5 C17", tech="TLA+ builder state machine (TLC, exhaustive histories) + trace validation of executed histories", note=BUILDER_NOTE),
    "C15": dict(
        text="MC_Parser: every check_claim configuration (2 keys x 2 values, up to 2/3 calls) x every sequence of up to 2 parses of "
             "tokens carrying every absent/null/v1/v2 combination under either key, configuration calls also after parses (one parser object "
             "reconfigured and reused), ExpectIff and parse-purity as invariants; executed "
             "with value pairs differing in type/case/number/nested member or coinciding under a lossy comparison (u64::MAX vs -1, 2^53 vs +1, NFC vs NFD, "
             "null vs 'null', one JSON text a prefix of the other, wrapper-shaped objects), keys differing by one character, padded, or being JSON-pointer syntax; "
             "family c15pc runs PasetoParser::check_claim with custom claims; longer histories (6 configuration calls, 4 parses) drawn by TLC simulation.",
        ref="5 C15", tech="TLA+ parser model composed with the token model (TLC) + trace validation of executed parser histories", note=PARSER_NOTE),
    "C16": dict(
        text="MC_Parser: validate_claim / extend_validation_claims / check_claim / set_footer configurations x authentic, tampered, "
             "wrong-key, wrong-footer and non-JSON tokens; ValidatorDiscipline as invariant; the harness validators log (key, value) and "
             "TLC accepts an observation iff some processing order of the claim map explains outcome, named claim and calls; validators are registered with the "
             "harness' claim type, with the library's placeholder claims and (generic parser) under exp / nbf themselves; re-parse histories c16r / c16pr (same token again under "
             "another key, after a footer change, relabelled); longer histories "
             "(6 configuration calls, 4 parses, reconfiguration between parses) drawn by TLC simulation.",
        ref="5 C16", tech="TLA+ parser model with order nondeterminism (TLC) + trace validation of logged validator calls", note=PARSER_NOTE),
    "C11": dict(
        text="MC_Parser family c11: PasetoParser::default() against every (exp class, nbf class) pair incl. non-string, empty and "
             "garbage values and values equal to the implementation's own placeholders, with and without an additional (shadowed) "
             "check_claim on exp/nbf whose value equals the token's, up to 2 parses per parser; the rendering space of past/future instants (every UTC offset -23:59..+23:59, "
             "0-9 fraction digits, T/space, 4 instants per class; stride 64 quick, full thorough on v4.local) is executed in parser "
             "objects of 100 parses and validated by TLC; family c11t lets the clock advance between configuration and parse and between parses (instants 2-3 s ahead of now become expired / valid while the parser object lives; a verdict frozen at construction or at the first parse is rejected).",
        ref="5 C11", tech="TLA+ default-validator model (TLC) + trace validation over the RFC 3339 rendering space", note=PARSER_NOTE),
    "C12": dict(
        text="As C11 with the direction reversed (NbfRejects); the full exp x nbf class product is explored so that an early return on "
             "one claim cannot mask the other.",
        ref="5 C12", tech="TLA+ default-validator model (TLC) + trace validation over the RFC 3339 rendering space", note=PARSER_NOTE),
})

CLAIMED.update({
    "C08": dict(cat="exploration",
        text="spec/Core.tla is the transcription of Version1-4.md + Common.md; MC_Terms prints the term tree of the prescribed token per "
             "protocol (PAE expanded to LE64/concat) and checks that each protocol's terms bind exactly its inputs; a ~300-line interpreter "
             "gives the operators their primitive meaning and is pinned to 45 official vectors at every run (pin failure = tool error); "
             "local: byte-identity with try_encrypt and decryption of specification tokens (incl. arbitrary wire nonces); public: "
             "cross-verification both ways incl. s-negated ECDSA; footer segment iff non-empty - also on a core builder object re-used with "
             "another / the empty footer (CoreObj histories, SegOK in CoreObjTrace); every mint of every core-object call history is compared with "
             "the specification's token for the values the object holds at that mint (SpecOK: byte-identical for local, signature over the "
             "specification's signing input for public).",
        ref="5 C08", tech="TLA+ term model of the PASETO algorithms + term evaluator pinned to official vectors (differential)",
        note="Trusted base: the primitive crates shared with the library (no protocol code shared); the official vectors shipped in the "
             "repository's tests (v1.public has none: RSA-PSS is randomised); TLC only prints and sanity-checks the terms."),
    "C09": dict(
        text="MC_Shapes enumerates every token shape - header x segment count 0..6 x decoded payload length 0..400 x canonical/non-canonical x "
             "footer segment - and proves on the step-by-step model that all entry points return a format/authentication error; every shape "
             "is replayed against all 24 entry points under catch_unwind, plus prefixes of authentic tokens, random Unicode, 1 MiB inputs and "
             "footer segments with every byte value first / last and JSON-structural content, and Key::<N>::try_from(hex) for every length 0..200.",
        ref="5 C09", tech="TLA+ shape model (TLC, exhaustive over lengths) + replay of every shape under catch_unwind"),
    "C18": dict(cat="exploration",
        text="spec/Claims.tla states the constructor contract; MC_Claims enumerates all 30 940 keys of length <= 4 over the letters of the "
             "registered names (invariant: exactly seven are refused), decorated variants and time-string classes; every case is executed "
             "against all constructor forms and value types; 'either' cases are not asserted.",
        ref="5 C18", tech="TLA+ decision table enumerated by TLC + exhaustive replay of constructor calls",
        note="Trusted base: TLC; the instantiation of 'does not start with an ISO 8601 date' (first four characters not all digits, no sign)."),
    "C19": dict(cat="exploration",
        text="spec/Typing.tla is the static contract as a decision table; TLC enumerates all 948 (operation, protocol, key protocol / key "
             "size) tuples with the expected verdict; one generated program per tuple is compiled by rustc against the crate built from the "
             "working tree; disagreement in either direction is a violation; rejections must be type errors. One-step model: TLC adds "
             "enumeration and a single source of verdicts, not reasoning power.",
        ref="5 C19", tech="TLA+ typing table enumerated by TLC + generated programs compiled with rustc",
        note="Trusted base: rustc; the program templates of lib/typing_gen.py (parameters carry the types)."),
    "C20": dict(cat="exploration",
        text="feature table and #[from] gates are extracted from the working tree into FeaturesGen.tla; TLC evaluates closure, coherence-conflict "
             "and dependency predicates over all 766 documented configurations and selects flagged ones; the verdict comes from real builds: "
             "cargo check for singletons, all 28 pairs and the full set x 3 layers + default + none (thorough: all 255 x 3) and smoke-program "
             "runs (one round trip per enabled protocol).",
        ref="5 C20", tech="TLA+ feature-closure model on constants extracted from the tree + real cargo builds and smoke runs",
        note="Trusted base: cargo/rustc; the smoke crate harness/smoke. The model never alarms by itself."),
})

NOT_YET = "check not built yet (work in progress, see DESIGN.md section 11)"


def main():
    checks = []
    for p in props:
        if p not in CLAIMED:
            continue
        c = CLAIMED[p]
        checks.append({
            "property_id": p,
            "quick_cmd": "bin/check %s quick" % p,
            "thorough_cmd": "bin/check %s thorough" % p,
            "evidence_file": "/verif/evidence/%s.json" % p,
            "replay_cmd_template": "bin/replay {path}",
            "engine": "tlc+pv",
            "level_claimed": {"category": c.get("cat", "model_checking"), "text": c["text"], "design_ref": c["ref"]},
            "level_note": c.get("note", CORE_NOTE),
            "technique": c["tech"],
        })
    m = {
        "version": 1,
        "setup_cmd": "bin/setup",
        "hooks": {
            "guard": "rusty_paseto_verif",
            "enable": "harness/.cargo/config.toml passes --cfg rusty_paseto_verif to every crate of the harness build "
                      "(path dependency on /repo); no hook code exists in /repo: every check uses the public API only",
            "baseline_off_cmd": "cd /repo && cargo test --workspace --no-fail-fast --offline",
            "source_commits": [],
            "add_only": True,
        },
        "engines": [
            {"name": "tlc+pv", "path": "bin/check",
             "serves_properties": sorted(CLAIMED.keys()),
             "kind_free_text": "TLA+ specification (spec/*.tla) model-checked with TLC; behaviours printed by TLC are replayed "
                               "against the library by the Rust harness `pv` (harness/), and traces recorded by `pv` from the "
                               "library are validated by TLC against the trace specification"},
        ],
        "checks": checks,
        "notes": "See DESIGN.md. known_findings.json lists repaired defects (fix: commits in /repo).",
        "not_applicable": [{"property_id": p, "reason": NOT_YET} for p in props if p not in CLAIMED],
    }
    json.dump(m, open(os.path.join(ROOT, "MANIFEST.json"), "w"), indent=1)
    print("manifest: %d checks, %d not claimed" % (len(checks), len(m["not_applicable"])))


if __name__ == "__main__":
    main()
