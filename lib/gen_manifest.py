#!/usr/bin/env python3
"""Regenerates /verif/MANIFEST.json from the table below (single source, keeps it valid)."""
import json
import os

ROOT = os.path.dirname(os.path.dirname(os.path.abspath(__file__)))
props = [json.loads(l)["id"] for l in open(os.path.join(ROOT, "properties.jsonl"))]

CORE_NOTE = ("Trusted base: TLC; the symbolic (Dolev-Yao) reading of the primitives - MAC/AEAD/signature "
             "unforgeability, distinct terms are distinct bytes; the primitive crates; the harness wrappers "
             "(harness/src/api.rs) which only route calls to the public API. The binding of model to code is the "
             "replay: every behaviour TLC prints is executed against the library built from /repo's working tree.")

CLAIMED = {
    "C01": dict(
        text="TLC checks RoundTrip/AcceptIff on every reachable token state of spec/Core.tla (all 8 protocols x footer x "
             "assertion x every presentation); every unaltered-token behaviour TLC prints is replayed against the real "
             "try_encrypt/try_decrypt and the generic/prelude parsers for every message length 0..=192 (thorough 0..=1024), "
             "block boundaries, 64 KiB, multi-byte/NUL/'.' content, special keys and nonce seeds; builder->parser round "
             "trips are covered by the Generic/Prelude model replay (C13/C14 machinery).",
        ref="5 C01", tech="TLA+ token life-cycle model (TLC, exhaustive) + spec->impl replay with length/content sweep"),
    "C02": dict(
        text="As C01 for try_sign/try_verify: RSA-2048 (4 fixture pairs), Ed25519 and P-384 pairs derived from random seeds.",
        ref="5 C02", tech="TLA+ token life-cycle model (TLC, exhaustive) + spec->impl replay over generated key pairs"),
    "C03": dict(
        text="TLC proves Integrity on the model for every edit kind of the adversary alphabet (flip/truncate/extend/insert/"
             "splice of two authentic tokens/re-encode/non-canonical base64/header/footer-segment edits/relabel) under all "
             "256 presentations; each edited-token behaviour is replayed with the edit expanded to all bit positions, "
             "character substitutions, prefixes and boundary shifts of concrete tokens, through core, generic and prelude "
             "layers with a counting validator.",
        ref="5 C03", tech="TLA+ adversary model (TLC) + exhaustive-position mutation replay against the library"),
    "C04": dict(
        text="KeyBound/AcceptIff on the model; replay with the second key instantiated by all 256 single-bit neighbours, "
             "all-zero, all-one and random keys (asymmetric: the neighbouring seed's key pair), all protocols and layers; "
             "the parser-history model (MC_Parser) adds re-presentation of the same token to one parser object under another key.",
        ref="5 C04", tech="TLA+ model (TLC) + key-neighbourhood replay + parser call-history replay"),
    "C05": dict(
        text="FooterBound/AcceptIff/FooterSeg over the full footer x expected-footer matrix and the footer-segment edit kinds; "
             "replay with prefix/extension/case/last-base64-char footer pairs; every produced token's 4th segment is compared "
             "with an independently written base64url encoder.",
        ref="5 C05", tech="TLA+ model (TLC) + footer-pair matrix replay + independent base64url oracle"),
    "C06": dict(
        text="AssertBound/AcceptIff/Hidden for v3/v4; replay over assertion pairs incl. prefix/extension; direct checks that "
             "token length is independent of the assertion and its bytes (all base64 alignments) never occur in the token.",
        ref="5 C06", tech="TLA+ model (TLC, Clear() term analysis) + assertion-pair matrix replay + absence scan"),
    "C07": dict(
        text="ProtoBound over all 56 ordered protocol pairs, verbatim and relabelled, same key bytes where both protocols accept them; "
             "replay through all 24 entry points.",
        ref="5 C07", tech="TLA+ model (TLC) over all protocol pairs + relabel replay"),
}

NOT_YET = "check not built yet (work in progress, see DESIGN.md section 11)"


def main():
    checks = []
    for p in props:
        if p not in CLAIMED:
            continue
        c = CLAIMED[p]
        checks.append({
            "property_id": p,
            "quick_cmd": "bin/check %s quick" % p,
            "thorough_cmd": "bin/check %s thorough" % p,
            "evidence_file": "/verif/evidence/%s.json" % p,
            "replay_cmd_template": "bin/replay {path}",
            "engine": "tlc+pv",
            "level_claimed": {"category": c.get("cat", "model_checking"), "text": c["text"], "design_ref": c["ref"]},
            "level_note": c.get("note", CORE_NOTE),
            "technique": c["tech"],
        })
    m = {
        "version": 1,
        "setup_cmd": "bin/setup",
        "hooks": {
            "guard": "rusty_paseto_verif",
            "enable": "harness/.cargo/config.toml passes --cfg rusty_paseto_verif to every crate of the harness build "
                      "(path dependency on /repo); no hook code exists in /repo: every check uses the public API only",
            "baseline_off_cmd": "cd /repo && cargo test --workspace --no-fail-fast --offline",
            "source_commits": [],
            "add_only": True,
        },
        "engines": [
            {"name": "tlc+pv", "path": "bin/check",
             "serves_properties": sorted(CLAIMED.keys()),
             "kind_free_text": "TLA+ specification (spec/*.tla) model-checked with TLC; behaviours printed by TLC are replayed "
                               "against the library by the Rust harness `pv` (harness/), and traces recorded by `pv` from the "
                               "library are validated by TLC against the trace specification"},
        ],
        "checks": checks,
        "notes": "See DESIGN.md. known_findings.json lists repaired defects (fix: commits in /repo).",
        "not_applicable": [{"property_id": p, "reason": NOT_YET} for p in props if p not in CLAIMED],
    }
    json.dump(m, open(os.path.join(ROOT, "MANIFEST.json"), "w"), indent=1)
    print("manifest: %d checks, %d not claimed" % (len(checks), len(m["not_applicable"])))


if __name__ == "__main__":
    main()
