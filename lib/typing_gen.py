"""C19: one generated Rust program per tuple printed by MC_Typing, compiled with rustc
(--emit=metadata) against the rusty_paseto rlib that the harness build produced from
/repo's working tree."""
import glob
import os
import re
import subprocess
from concurrent.futures import ThreadPoolExecutor

import verif

V = {"v1": "V1", "v2": "V2", "v3": "V3", "v4": "V4"}
P = {"local": "Local", "public": "Public"}

# error codes that mean "the type system refused the program" (anything else in a program that is
# expected not to compile would be a defect of the generator, not evidence for the property)
TYPE_ERRORS = {"E0308", "E0599", "E0277", "E0271", "E0061", "E0107"}


def ty(x):
    v, p = x.split(".")
    return "%s, %s" % (V[v], P[p])


def has_assert(x):
    return x.startswith("v3") or x.startswith("v4")


def program(p):
    X, Y, op, n = p["x"], p["y"], p["op"], p["n"]
    head = "#![allow(unused)]\nuse rusty_paseto::prelude::*;\n"
    tail_none = "None::<Footer>, None::<ImplicitAssertion>" if has_assert(X) else "None::<Footer>"
    if p["kind"] == "call":
        if op == "core_encrypt":
            body = "pub fn f<'a>(b: &mut Paseto<'a, %s>, key: &PasetoSymmetricKey<%s>, nonce: &PasetoNonce<'a, %s>) { let _ = b.try_encrypt(key, nonce); }" % (ty(X), ty(Y), ty(X))
        elif op == "core_decrypt":
            body = "pub fn f(t: &str, key: &PasetoSymmetricKey<%s>) { let _ = Paseto::<%s>::try_decrypt(t, key, %s); }" % (ty(Y), ty(X), tail_none)
        elif op == "core_sign":
            body = "pub fn f<'a>(b: &mut Paseto<'a, %s>, key: &PasetoAsymmetricPrivateKey<'a, %s>) { let _ = b.try_sign(key); }" % (ty(X), ty(Y))
        elif op == "core_verify":
            body = "pub fn f<'a>(t: &'a str, key: &PasetoAsymmetricPublicKey<'a, %s>) { let _ = Paseto::<%s>::try_verify(t, key, %s); }" % (ty(Y), ty(X), tail_none)
        elif op == "generic_encrypt":
            body = "pub fn f(b: &mut GenericBuilder<'_, '_, %s>, key: &PasetoSymmetricKey<%s>) { let _ = b.try_encrypt(key); }" % (ty(X), ty(Y))
        elif op == "generic_sign":
            body = "pub fn f(b: &mut GenericBuilder<'_, '_, %s>, key: &PasetoAsymmetricPrivateKey<'_, %s>) { let _ = b.try_sign(key); }" % (ty(X), ty(Y))
        elif op == "generic_parse_local":
            body = "pub fn f<'a>(p: &mut GenericParser<'a, 'a, %s>, t: &'a str, key: &'a PasetoSymmetricKey<%s>) { let _ = p.parse(t, key); }" % (ty(X), ty(Y))
        elif op == "generic_parse_public":
            body = "pub fn f<'a>(p: &mut GenericParser<'a, 'a, %s>, t: &'a str, key: &'a PasetoAsymmetricPublicKey<'a, %s>) { let _ = p.parse(t, key); }" % (ty(X), ty(Y))
        elif op == "prelude_build_local":
            body = "pub fn f(b: &mut PasetoBuilder<'_, %s>, key: &PasetoSymmetricKey<%s>) { let _ = b.build(key); }" % (ty(X), ty(Y))
        elif op == "prelude_build_public":
            body = "pub fn f(b: &mut PasetoBuilder<'_, %s>, key: &PasetoAsymmetricPrivateKey<'_, %s>) { let _ = b.build(key); }" % (ty(X), ty(Y))
        elif op == "prelude_parse_local":
            body = "pub fn f<'a>(p: &mut PasetoParser<'a, %s>, t: &'a str, key: &'a PasetoSymmetricKey<%s>) { let _ = p.parse(t, key); }" % (ty(X), ty(Y))
        elif op == "prelude_parse_public":
            body = "pub fn f<'a>(p: &mut PasetoParser<'a, %s>, t: &'a str, key: &'a PasetoAsymmetricPublicKey<'a, %s>) { let _ = p.parse(t, key); }" % (ty(X), ty(Y))
        else:
            raise verif.ToolError("unknown op " + op)
    elif p["kind"] == "assertion":
        t = {"Paseto": "Paseto<'a, %s>", "GenericBuilder": "GenericBuilder<'a, 'a, %s>", "GenericParser": "GenericParser<'a, 'a, %s>",
             "PasetoBuilder": "PasetoBuilder<'a, %s>", "PasetoParser": "PasetoParser<'a, %s>"}[op] % ty(X)
        body = "pub fn f<'a>(b: &mut %s, a: ImplicitAssertion<'a>) { b.set_implicit_assertion(a); }" % t
    else:
        if op == "symmetric":
            body = "pub fn f(k: Key<%d>) { let _ = PasetoSymmetricKey::<%s>::from(k); }" % (n, ty(X))
        elif op == "private":
            body = "pub fn f<'a>(k: &'a Key<%d>) { let _ = PasetoAsymmetricPrivateKey::<'a, %s>::from(k); }" % (n, ty(X))
        elif op == "public":
            body = "pub fn f<'a>(k: &'a Key<%d>) { let _ = <PasetoAsymmetricPublicKey<'a, %s> as std::convert::TryFrom<&'a Key<%d>>>::try_from(k); }" % (n, ty(X), n)
        else:
            body = "pub fn f<'a>(k: &'a Key<%d>) { let _ = PasetoNonce::<'a, %s>::from(k); }" % (n, ty(X))
    return head + body + "\n"


def find_rlib():
    deps = os.path.join(verif.HARNESS, "target", "release", "deps")
    cands = glob.glob(os.path.join(deps, "librusty_paseto-*.rlib"))
    if not cands:
        raise verif.ToolError("no rusty_paseto rlib under " + deps)
    cands.sort(key=os.path.getmtime)
    return deps, cands[-1]


def compile_one(args):
    idx, prog, text, outdir, deps, rlib = args
    src = os.path.join(outdir, "p%04d.rs" % idx)
    open(src, "w").write(text)
    cmd = ["rustc", "--edition", "2021", "--crate-type", "lib", "--emit=metadata", "--cap-lints", "allow",
           "-L", "dependency=" + deps, "--extern", "rusty_paseto=" + rlib,
           "-o", os.path.join(outdir, "p%04d.rmeta" % idx), src]
    p = subprocess.run(cmd, stdout=subprocess.PIPE, stderr=subprocess.PIPE, text=True)
    codes = sorted(set(re.findall(r"error\[(E\d+)\]", p.stderr)))
    plain_errors = re.findall(r"^error: (.*)$", p.stderr, re.M)
    try:
        os.remove(os.path.join(outdir, "p%04d.rmeta" % idx))
    except OSError:
        pass
    return idx, p.returncode == 0, codes, plain_errors, p.stderr[-1500:]


def run(programs, tier):
    deps, rlib = find_rlib()
    outdir = os.path.join(verif.WORK, "typing_%s" % tier)
    subprocess.run(["rm", "-rf", outdir])
    os.makedirs(outdir)
    jobs = [(i, p, program(p), outdir, deps, rlib) for i, p in enumerate(programs)]
    with ThreadPoolExecutor(max_workers=14) as ex:
        results = list(ex.map(compile_one, jobs))
    violations = []
    generator_defects = []
    samples = []
    for (i, compiled, codes, plain, stderr) in results:
        p = programs[i]
        text = jobs[i][2]
        if compiled != p["ok"]:
            violations.append({"props": ["C19"],
                               "what": "program %s: specification says %s, rustc %s %s" % (
                                   {k: p[k] for k in ("kind", "op", "x", "y", "n")}, "must compile" if p["ok"] else "must NOT compile",
                                   "accepted it" if compiled else "rejected it", codes),
                               "replay": {"kind": "typing", "tuple": p, "program": text, "rustc_accepts": compiled, "error_codes": codes,
                                          "stderr": stderr if not compiled else ""}})
        elif not compiled:
            bad = [c for c in codes if c not in TYPE_ERRORS]
            if bad or (not codes):
                generator_defects.append((p, codes, plain[:2]))
        if i % 97 == 0 and len(samples) < 6:
            samples.append({"tuple": p, "program": text.split("\n")[2], "rustc_accepts": compiled, "error_codes": codes})
    subprocess.run(["rm", "-rf", outdir])
    return dict(n=len(programs), violations=violations, generator_defects=generator_defects, samples=samples,
                accepted=sum(1 for r in results if r[1]), rejected=sum(1 for r in results if not r[1]))
