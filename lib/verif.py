"""Common machinery of /verif/bin/check: running TLC, extracting the behaviours it
prints, building and running the Rust harness, known findings, evidence files.

Exit codes of a check: 0 = property held on everything explored, 1 = violation
(a line `VIOLATION property=<id> replay=<path>` is printed), 2 = tool error/timeout.
"""
import json
import os
import re
import subprocess
import sys
import time

ROOT = os.path.dirname(os.path.dirname(os.path.abspath(__file__)))
SPEC = os.path.join(ROOT, "spec")
WORK = os.path.join(ROOT, "work")
EVID = os.path.join(ROOT, "evidence")
HARNESS = os.path.join(ROOT, "harness")
PV = os.path.join(HARNESS, "target", "release", "pv")
TLA_CP = "/opt/veriftools/tla/tla2tools.jar:/opt/veriftools/tla/CommunityModules-deps.jar"
JAVA_OPTS = ["-Xmx6g", "-Xss512m", "-XX:+UseParallelGC", "-XX:ParallelGCThreads=4"]


class ToolError(Exception):
    pass


def log(*a):
    print(*a, file=sys.stderr, flush=True)


def seed():
    try:
        return int(os.environ.get("VERIF_SEED", "20261002"))
    except ValueError:
        return 20261002


def ensure_dirs():
    for d in (WORK, EVID, os.path.join(WORK, "replays")):
        os.makedirs(d, exist_ok=True)


def build_harness():
    """(Re)builds the harness, and with it rusty_paseto from /repo's working tree."""
    env = dict(os.environ, CARGO_NET_OFFLINE="true")
    t0 = time.time()
    p = subprocess.run(
        ["cargo", "build", "--release", "--offline"], cwd=HARNESS, env=env,
        stdout=subprocess.PIPE, stderr=subprocess.STDOUT, text=True)
    if p.returncode != 0:
        tail = "\n".join(p.stdout.splitlines()[-40:])
        raise ToolError("harness build failed (rusty_paseto with all features + harness):\n" + tail)
    return time.time() - t0


def build_library_only():
    """Builds only the dependency rusty_paseto (all features) in the harness' target directory."""
    env = dict(os.environ, CARGO_NET_OFFLINE="true")
    p = subprocess.run(["cargo", "build", "--release", "--offline", "-p", "rusty_paseto"], cwd=HARNESS, env=env,
                       stdout=subprocess.PIPE, stderr=subprocess.STDOUT, text=True)
    if p.returncode != 0:
        raise ToolError("rusty_paseto (all features) does not build:\n" + "\n".join(p.stdout.split("\n")[-30:]))


def run_tlc(module, cfg, workers=8, timeout=1800, env_extra=None, tag=None, simulate=None, deque=False, depth=6):
    """Runs TLC on spec/mc/<module>.tla (or an absolute path) with <cfg>.
    Returns dict(out=str, states=int, distinct=int, depth=int, ok=bool, violated=str|None, wall=float)."""
    mdir = os.path.join(SPEC, "mc")
    if os.path.isabs(module):
        mdir = os.path.dirname(module)
        module = os.path.basename(module)
    tag = tag or (module.replace(".tla", "") + "-" + os.path.basename(cfg).replace(".cfg", ""))
    meta = os.path.join(WORK, "tlc", tag + "-" + str(os.getpid()))
    os.makedirs(meta, exist_ok=True)
    opts = list(JAVA_OPTS)
    if deque:
        opts.append("-Dtlc2.tool.queue.IStateQueue=StateDeque")
    cmd = ["java"] + opts + ["-cp", TLA_CP, "tlc2.TLC", "-workers", str(workers), "-metadir", meta,
                             "-cleanup", "-noGenerateSpecTE", "-config", cfg]
    if simulate:
        cmd += ["-simulate", simulate, "-depth", str(depth), "-seed", str(seed())]
    cmd.append(module)
    env = dict(os.environ)
    env.pop("JAVA_TOOL_OPTIONS", None)
    if env_extra:
        env.update(env_extra)
    t0 = time.time()
    try:
        p = subprocess.run(cmd, cwd=mdir, env=env, stdout=subprocess.PIPE, stderr=subprocess.STDOUT,
                           text=True, timeout=timeout)
    except subprocess.TimeoutExpired:
        raise ToolError("TLC timed out after %ds on %s / %s" % (timeout, module, cfg))
    finally:
        subprocess.run(["rm", "-rf", meta])
    out = p.stdout
    res = dict(out=out, wall=time.time() - t0, states=0, distinct=0, depth=0, violated=None, ok=False, rc=p.returncode)
    m = re.findall(r"(\d+) states generated, (\d+) distinct states found", out)
    if m:
        res["states"], res["distinct"] = int(m[-1][0]), int(m[-1][1])
    m = re.search(r"depth of the complete state graph search is (\d+)", out)
    if m:
        res["depth"] = int(m.group(1))
    m = re.search(r"Error: Invariant (\S+) is violated", out)
    if m:
        res["violated"] = m.group(1)
    elif "Error:" in out:
        idx = out.index("Error:")
        res["violated"] = "error: " + out[idx:idx + 600]
    res["ok"] = ("Model checking completed. No error has been found." in out) or \
                (simulate is not None and res["violated"] is None)
    return res


_REC = re.compile(r'^<<"([A-Z]+)", "(.*)">>\s*$')


def tla_unescape(s):
    # TLC prints a TLA+ string: backslash and double quote are escaped
    out = []
    i = 0
    while i < len(s):
        c = s[i]
        if c == "\\" and i + 1 < len(s):
            n = s[i + 1]
            if n in ('"', "\\"):
                out.append(n)
                i += 2
                continue
            if n == "n":
                out.append("\n"); i += 2; continue
            if n == "t":
                out.append("\t"); i += 2; continue
        out.append(c)
        i += 1
    return "".join(out)


def printed_records(out, tag):
    """JSON records printed by the specification with PrintT(<<tag, ToJson(..)>>)."""
    recs = []
    for line in out.split("\n"):
        m = _REC.match(line)
        if m and m.group(1) == tag:
            recs.append(json.loads(tla_unescape(m.group(2))))
    return recs


def require_model_ok(res, what):
    """An invariant violation in a model whose constants do not come from /repo cannot be
    caused by a change to /repo: it is a tool error."""
    if not res["ok"]:
        tail = "\n".join(l for l in res["out"].splitlines() if not l.startswith("<<"))[-3000:]
        raise ToolError("TLC did not complete cleanly on %s (violated=%s)\n%s" % (what, res["violated"], tail))


def write_ndjson(path, recs):
    with open(path, "w") as f:
        for r in recs:
            f.write(json.dumps(r, separators=(",", ":")) + "\n")


def run_pv(args, timeout=3600):
    t0 = time.time()
    try:
        p = subprocess.run([PV] + args, stdout=subprocess.PIPE, stderr=subprocess.PIPE, text=True, timeout=timeout)
    except subprocess.TimeoutExpired:
        raise ToolError("harness timed out: pv " + " ".join(args))
    if p.returncode not in (0, 1):
        raise ToolError("harness failed (rc=%d): pv %s\n%s\n%s" % (p.returncode, " ".join(args), p.stdout[-2000:], p.stderr[-2000:]))
    return p.returncode, p.stdout, time.time() - t0


# ---------------------------------------------------------------------------------------
# known findings
# ---------------------------------------------------------------------------------------

def load_known():
    path = os.path.join(ROOT, "known_findings.json")
    if not os.path.exists(path):
        return {"known": [], "fixed": []}
    return json.load(open(path))


def finding_matches(entry, prop, violation):
    """A known finding is identified by property + a signature: every key/value of
    entry['signature'] must occur in the violation's replay record (sub-dict match)."""
    if entry.get("property") != prop:
        return False

    def sub(a, b):
        if isinstance(a, dict):
            return isinstance(b, dict) and all(k in b and sub(v, b[k]) for k, v in a.items())
        return a == b
    return sub(entry.get("signature", {}), violation.get("replay", {}))


def report(prop, violations, tier):
    """Prints KNOWN-FINDING / VIOLATION lines. Returns number of unlisted violations."""
    known = load_known().get("known", [])
    printed_known = set()
    fresh = []
    for v in violations:
        hit = None
        for e in known:
            if finding_matches(e, prop, v):
                hit = e
                break
        if hit is not None:
            if hit["id"] not in printed_known:
                printed_known.add(hit["id"])
                print("KNOWN-FINDING: property=%s %s" % (prop, hit.get("what", hit["id"])), flush=True)
        else:
            fresh.append(v)
    n = 0
    for i, v in enumerate(fresh[:10]):
        path = os.path.join(WORK, "replays", "%s-%s-%d.json" % (prop, tier, i))
        json.dump(v, open(path, "w"), indent=1)
        print("VIOLATION property=%s replay=%s" % (prop, path), flush=True)
        log("  " + str(v.get("what", ""))[:400])
        n += 1
    return len(fresh)


# ---------------------------------------------------------------------------------------
# evidence
# ---------------------------------------------------------------------------------------

def write_evidence(prop, tier, coverage, assumptions, wall, violations, level="model_checking"):
    ev = {
        "property_id": prop,
        "tier": tier,
        "seed": seed(),
        "level": level,
        "coverage": coverage,
        "assumptions": assumptions,
        "wall_s": round(wall, 2),
        "violations": violations,
    }
    path = os.path.join(EVID, prop + ".json")
    tmp = path + ".tmp"
    json.dump(ev, open(tmp, "w"), indent=1)
    os.replace(tmp, path)
    return path
