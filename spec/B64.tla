-------------------------------- MODULE B64 --------------------------------
(***************************************************************************)
(* Unpadded base64url as a relation between byte strings and strings over  *)
(* the 64-letter alphabet (letters are their 6-bit values 0..63; 64 stands *)
(* for '=' and 65 for any foreign character).  A string is canonical iff   *)
(* it uses alphabet letters only, its length mod 4 is not 1 and the unused *)
(* trailing bits are zero.  The library decodes payload and footer         *)
(* segments strictly, so exactly the canonical strings decode, and Enc/Dec *)
(* are mutually inverse on them: one token text per byte string (C03).     *)
(***************************************************************************)
EXTENDS Naturals, Sequences

Letter == 0..63
Pad == 64
Foreign == 65

RECURSIVE Enc(_)
\* bytes -> letters
Enc(bs) ==
  IF bs = <<>> THEN <<>>
  ELSE IF Len(bs) = 1 THEN <<bs[1] \div 4, (bs[1] % 4) * 16>>
  ELSE IF Len(bs) = 2 THEN <<bs[1] \div 4, (bs[1] % 4) * 16 + bs[2] \div 16, (bs[2] % 16) * 4>>
  ELSE <<bs[1] \div 4, (bs[1] % 4) * 16 + bs[2] \div 16, (bs[2] % 16) * 4 + bs[3] \div 64, bs[3] % 64>>
         \o Enc(SubSeq(bs, 4, Len(bs)))

\* lenient decoding: what the letters say, ignoring unused bits (only on letter strings of legal length)
RECURSIVE Dec(_)
Dec(s) ==
  IF Len(s) < 2 THEN <<>>
  ELSE IF Len(s) = 2 THEN <<s[1] * 4 + s[2] \div 16>>
  ELSE IF Len(s) = 3 THEN <<s[1] * 4 + s[2] \div 16, (s[2] % 16) * 16 + s[3] \div 4>>
  ELSE <<s[1] * 4 + s[2] \div 16, (s[2] % 16) * 16 + s[3] \div 4, (s[3] % 4) * 64 + s[4]>> \o Dec(SubSeq(s, 5, Len(s)))

AllLetters(s) == \A i \in 1..Len(s) : s[i] \in Letter
TrailingZero(s) ==
  CASE Len(s) % 4 = 2 -> s[Len(s)] % 16 = 0
    [] Len(s) % 4 = 3 -> s[Len(s)] % 4 = 0
    [] OTHER -> TRUE

Canonical(s) == AllLetters(s) /\ Len(s) % 4 # 1 /\ TrailingZero(s)

\* what strict decoding returns
StrictDec(s) == IF Canonical(s) THEN [ok |-> TRUE, bytes |-> Dec(s)] ELSE [ok |-> FALSE, bytes |-> <<>>]
=============================================================================
