------------------------------ MODULE Builder ------------------------------
(***************************************************************************)
(* GenericBuilder (src/generic/builders/generic_builder.rs) and            *)
(* PasetoBuilder (src/prelude/paseto_builder.rs) as state machines over    *)
(* abstract claim keys and values.  One operator per public method,        *)
(* written as the code does it; ghost fields (supplied, ackedBefore, ...)  *)
(* record what the caller did so that the listed properties C10, C13, C14  *)
(* and C17 can be stated.                                                  *)
(*                                                                         *)
(* The operators are pure functions on a builder record so that the same   *)
(* definitions drive the exhaustive model (MC_Builder) and the validation  *)
(* of traces recorded from the real builders (BuilderTrace).               *)
(***************************************************************************)
EXTENDS Naturals, Sequences, FiniteSets

CONSTANTS
  \* build keeps the claims in the builder (TRUE) / drains them (FALSE, pinned commit)
  \* @type: Bool;
  FixD4

\* Apalache type aliases (comments for TLC): builder state, operation, observed build outcome
\* @typeAlias: bstate = { layer: Str, claims: Str -> Str, top: Set(Str), dup: Str, nonexp: Bool, footer: Str, assertion: Str, supplied: Str -> Int, expAfterAck: Bool, failed: Bool, nbuilt: Int };
\* @typeAlias: bop = { op: Str, k: Str, v: Str };
\* @typeAlias: bobs = { res: Str, key: Str, payload: Set(<<Str, Str>>) };
BuilderTypeAliases == TRUE

Reserved == {"exp", "nbf", "iat", "iss", "sub", "aud", "jti"}
Custom   == {"ca", "cb"}
BKeys    == Reserved \cup Custom

\* claim values: absent, the default written by PasetoBuilder::default(), or a caller value
Absent == "absent"
Dflt   == "dflt"
\* "wv1": the claim object {key: v1} itself stored as the value (what extend_claims does with a boxed
\* claim: it stores the serialisable as it is, without the unwrapping set_claim performs)
CallerVals == {"v1", "v2", "v3", "wv1", "wv2"}

NoDup == "-"

EmptyClaims == [k \in BKeys |-> Absent]

\* GenericBuilder::new / PasetoBuilder::default
\* @type: (Str) => $bstate;
BInit(layer) ==
  [layer    |-> layer,
   claims   |-> IF layer = "prelude"
                THEN [k \in BKeys |-> IF k \in {"exp", "iat", "nbf"} THEN Dflt ELSE Absent]
                ELSE EmptyClaims,
   top      |-> {},            \* PasetoBuilder.top_level_claims
   dup      |-> NoDup,         \* PasetoBuilder.dup_top_level_found
   nonexp   |-> FALSE,         \* PasetoBuilder.non_expiring_token
   footer   |-> "none",
   assertion|-> "none",
   \* ghosts
   supplied |-> [k \in BKeys |-> 0],   \* how often the caller supplied key k
   expAfterAck |-> FALSE,              \* the caller supplied exp after acknowledging no-expiration
   failed   |-> FALSE,                 \* some build returned the duplicate-claim error
   nbuilt   |-> 0]                     \* number of tokens produced (= nonces drawn)

\* GenericBuilder::set_claim (empty keys are not in BKeys)
\* @type: ($bstate, Str, Str) => $bstate;
GSet(b, k, v) == [b EXCEPT !.claims[k] = v]

\* PasetoBuilder::set_claim / GenericBuilder::set_claim
\* @type: ($bstate, Str, Str) => $bstate;
SetClaim(b, k, v) ==
  IF b.layer = "prelude" THEN
    LET b1 == [b EXCEPT !.dup = IF k \in b.top THEN k ELSE b.dup,
                        !.top = b.top \cup {k},
                        !.supplied[k] = b.supplied[k] + 1,
                        !.expAfterAck = b.expAfterAck \/ (k = "exp" /\ b.nonexp)]
    IN GSet(b1, k, v)
  ELSE GSet([b EXCEPT !.supplied[k] = b.supplied[k] + 1], k, v)

\* the value stored when extend_claims is handed the boxed claim object {key: v} itself
\* @type: (Str) => Str;
WrapVal(v) == IF v = "v2" THEN "wv2" ELSE "wv1"

\* GenericBuilder::remove_claim (not exposed by PasetoBuilder)
\* @type: ($bstate, Str) => $bstate;
RemoveClaim(b, k) == [b EXCEPT !.claims[k] = Absent]

\* PasetoBuilder::set_no_expiration_danger_acknowledged
\* @type: ($bstate) => $bstate;
Ack(b) == [b EXCEPT !.top = b.top \cup {"exp"}, !.nonexp = TRUE]

\* @type: ($bstate, Str) => $bstate;
SetFooter(b, f)    == [b EXCEPT !.footer = f]
\* @type: ($bstate, Str) => $bstate;
SetAssertion(b, a) == [b EXCEPT !.assertion = a]

\* C05 / C06: the empty string is "no footer" / "no assertion"; what binds a token is the value set last
\* @type: (Str) => Str;
NormFA(x) == IF x = "empty" THEN "none" ELSE x

\* PasetoBuilder::verify_ready_to_build removes exp when acknowledged - before the duplicate test
\* @type: ($bstate) => $bstate;
Ready(b) == IF b.layer = "prelude" /\ b.nonexp THEN [b EXCEPT !.claims["exp"] = Absent] ELSE b

\* outcome of build / try_encrypt / try_sign as the code computes it
\* @type: ($bstate) => Bool;
BuildFails(b) == b.layer = "prelude" /\ b.dup # NoDup
\* @type: ($bstate) => Set(<<Str, Str>>);
Payload(b) == {<<k, Ready(b).claims[k]>> : k \in {x \in BKeys : Ready(b).claims[x] # Absent}}

\* builder after a build call
\* @type: ($bstate) => $bstate;
AfterBuild(b) ==
  LET r == Ready(b) IN
  IF BuildFails(b) THEN [r EXCEPT !.failed = TRUE]
  ELSE [r EXCEPT !.nbuilt = r.nbuilt + 1,
                 !.claims = IF FixD4 THEN r.claims ELSE EmptyClaims]

(***************************************************************************)
(* Operations as data (for histories and recorded traces)                  *)
(***************************************************************************)
\* @type: (Str, Str, Str) => $bop;
Op(op, k, v) == [op |-> op, k |-> k, v |-> v]

\* @type: ($bstate, $bop) => $bstate;
Apply(b, o) ==
  CASE o.op = "set"       -> SetClaim(b, o.k, o.v)
    [] o.op = "remove"    -> RemoveClaim(b, o.k)
    \* GenericBuilder::extend_claims with one entry: a plain value / a boxed claim object
    [] o.op = "extend"    -> GSet(b, o.k, o.v)
    [] o.op = "extendw"   -> GSet(b, o.k, WrapVal(o.v))
    \* extend_claims with a batch of two entries (both custom keys): every entry of the batch replaces
    \* what the builder held, whatever the sizes of the two maps
    [] o.op = "extend2"   -> GSet(GSet(b, "ca", o.v), "cb", o.v)
    [] o.op = "ack"       -> Ack(b)
    [] o.op = "footer"    -> SetFooter(b, o.v)
    [] o.op = "assertion" -> SetAssertion(b, o.v)
    [] o.op = "build"     -> AfterBuild(b)
    \* time passes: nothing changes - iat / nbf / exp defaults stay those of the creation instant (C13)
    [] o.op = "tick"      -> b

(***************************************************************************)
(* What the listed properties allow a build to return in state b.          *)
(*   C17: the duplicate-claim error iff some key was supplied twice,       *)
(*        naming such a key; exp supplied after the acknowledgement may    *)
(*        be refused as a duplicate or ignored.                            *)
(*   C13: exp present iff not acknowledged; defaults unless supplied.      *)
(*   C14: the payload is exactly the claim map (last value wins, removed   *)
(*        claims absent, nothing else).                                    *)
(***************************************************************************)
\* @type: ($bstate) => Set(Str);
Repeated(b) == {k \in BKeys : b.supplied[k] >= 2}
\* @type: ($bstate) => Set(Str);
DupNameable(b) == Repeated(b) \cup (IF b.expAfterAck THEN {"exp"} ELSE {})

\* @type: ($bstate) => Bool;
MustFail(b) == b.layer = "prelude" /\ (Repeated(b) # {} \/ b.failed)
\* @type: ($bstate) => Bool;
MayFail(b)  == b.layer = "prelude" /\ (DupNameable(b) # {} \/ b.failed)

\* an observed build result obs = [res, key, payload]
\* @type: ($bstate, $bobs) => Bool;
BuildAllowed(b, obs) ==
  \/ /\ obs.res = "dup"
     /\ MayFail(b)
     /\ obs.key \in DupNameable(b)
  \/ /\ obs.res = "ok"
     /\ ~MustFail(b)
     /\ obs.payload = Payload(b)

\* C01 / C02 through the batteries-included layer: what PasetoParser::default() says about the
\* token built in state b.  Caller-supplied time values are far-future instants in every
\* concretisation, so a caller nbf is "not yet valid" and a caller or default exp is in the future.
\* @type: ($bstate) => Str;
DefaultParserVerdict(b) ==
  IF Ready(b).claims["nbf"] \in CallerVals THEN "claim" ELSE "ok"

(***************************************************************************)
(* Properties of the model itself (checked by MC_Builder on every          *)
(* reachable builder state): what the code-shaped model computes is        *)
(* allowed by the property-shaped predicates above.                        *)
(***************************************************************************)
\* @type: ($bstate) => $bobs;
ModelBuildObs(b) ==
  IF BuildFails(b) THEN [res |-> "dup", key |-> b.dup, payload |-> {}]
  ELSE [res |-> "ok", key |-> NoDup, payload |-> Payload(b)]

\* C17
\* @type: ($bstate) => Bool;
DupIff(b)    == BuildAllowed(b, ModelBuildObs(b))
\* @type: ($bstate) => Bool;
DupSticky(b) == b.failed => BuildFails(b)

\* C13
\* @type: ($bstate) => Bool;
ExpDefault(b) ==
  (b.layer = "prelude" /\ ~BuildFails(b)) =>
    LET P == Payload(b)
        Has(k) == \E p \in P : p[1] = k
        Val(k) == (CHOOSE p \in P : p[1] = k)[2]
    IN /\ Has("exp") <=> ~b.nonexp
       /\ (~b.nonexp /\ b.supplied["exp"] = 0) => Val("exp") = Dflt
       /\ (b.supplied["iat"] = 0) => (Has("iat") /\ Val("iat") = Dflt)
       /\ (b.supplied["nbf"] = 0) => (Has("nbf") /\ Val("nbf") = Dflt)
       /\ \A k \in BKeys : (b.supplied[k] = 1 /\ ~(k = "exp" /\ b.nonexp)) => (Has(k) /\ Val(k) \in CallerVals)
=============================================================================
