------------------------------- MODULE Claims -------------------------------
(***************************************************************************)
(* Claim constructors (src/generic/claims/*.rs).                           *)
(*  - CustomClaim::try_from, all three forms: fails with the reserved-key  *)
(*    error exactly for the seven registered claim names (exact match:     *)
(*    case-sensitive, no trimming), succeeds for every other key.          *)
(*  - ExpirationClaim / NotBeforeClaim / IssuedAtClaim::try_from: every    *)
(*    RFC 3339 date-time written with upper-case 'T' and 'Z' is accepted   *)
(*    and kept verbatim; a string that does not start with an ISO 8601     *)
(*    date is rejected; anything in between is not constrained.            *)
(***************************************************************************)
EXTENDS Naturals, Sequences

ReservedKeys == {"iss", "sub", "aud", "exp", "nbf", "iat", "jti"}

CustomClaimResult(key) == IF key \in ReservedKeys THEN "reserved" ELSE "ok"

\* the registered key each typed constructor writes
TypedKey(ctor) ==
  CASE ctor = "IssuerClaim" -> "iss" [] ctor = "SubjectClaim" -> "sub" [] ctor = "AudienceClaim" -> "aud"
    [] ctor = "TokenIdentifierClaim" -> "jti" [] ctor = "ExpirationClaim" -> "exp"
    [] ctor = "NotBeforeClaim" -> "nbf" [] ctor = "IssuedAtClaim" -> "iat"

TimeClasses == {"rfc3339upper", "noisodate", "other"}
\* "either" = the property does not constrain the outcome
TimeCtorResult(class) ==
  CASE class = "rfc3339upper" -> "ok-verbatim"
    [] class = "noisodate"    -> "err"
    [] class = "other"        -> "either"

\* ways of decorating a reserved key that make it a different (hence permitted) key
Decorations == {"upper-first", "upper-all", "upper-last", "lead-space", "trail-space", "trail-tab", "trail-nul",
                "trail-newline", "fullwidth", "prefix-x", "suffix-s", "empty-suffix-dot"}
=============================================================================
