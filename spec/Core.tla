-------------------------------- MODULE Core --------------------------------
(***************************************************************************)
(* The life of a token at the core layer of rusty_paseto:                  *)
(*                                                                         *)
(*    Mint  (Paseto::<V,P>::try_encrypt / try_sign)                        *)
(*    Edit  (an adversary rewrites the token text)                         *)
(*    Present (Paseto::<V,P>::try_decrypt / try_verify under some          *)
(*             protocol, key, expected footer and implicit assertion)      *)
(*                                                                         *)
(* Cryptography is symbolic (module Terms).  Present is written step by    *)
(* step as src/core/paseto.rs (parse_raw_token) and                        *)
(* src/core/paseto_impl/v*_{local,public}.rs do it, so that each guard of  *)
(* the implementation is one line of the model and deleting it breaks an   *)
(* invariant.  The constants FixDn switch between the behaviour of the     *)
(* pinned commit (FALSE) and the repaired behaviour (TRUE), see DESIGN.md  *)
(* section 8.                                                              *)
(***************************************************************************)
EXTENDS Naturals, Sequences, FiniteSets, Terms, Proto

CONSTANTS
  FixD2,   \* length guard before slicing the decoded payload
  FixD5,   \* no footer segment for an explicitly empty footer
  FixD6    \* 3-segment token + non-empty expected footer = FooterInvalid

(***************************************************************************)
(* Abstract inputs                                                         *)
(***************************************************************************)
KeyNames    == {"k1", "k2"}
SeedNames   == {"s1", "s2"}
MsgNames    == {"m1", "m2"}
FooterNames == {"none", "empty", "f1", "f2"}
AssertNames == {"none", "empty", "a1", "a2"}

KeyT(k)  == Atom(k, 32)
SeedT(s) == Atom(s, 32)
MsgT(m)  == Atom(m, 20)
\* absent and empty footers / assertions are the same bytes
FB(f) == IF f \in {"none", "empty"} THEN EmptyT ELSE Atom(f, 5)
AB(a) == IF a \in {"none", "empty"} THEN EmptyT ELSE Atom(a, 7)
Hdr(pr) == Lit(HeaderStr(pr), HeaderLen(pr))

(***************************************************************************)
(* Version1-4.md, transcribed.  The same definitions are used by Mint and  *)
(* by Present ("deterministic key split repeated identically on both       *)
(* sides") and are printed as term trees for the C08 evaluator.            *)
(***************************************************************************)
EKLit == Lit("paseto-encryption-key", 21)
AKLit == Lit("paseto-auth-key-for-aead", 24)

EncTmp(v, K, n) ==
  CASE v = 3 -> Hkdf(EmptyT, K, Concat(<<EKLit, n>>), 48)
    [] v = 4 -> Mac("blake2b-56", K, Concat(<<EKLit, n>>))

EncKey(v, K, n) ==
  CASE v = 1 -> Hkdf(Slice(n, 0, 16), K, EKLit, 32)
    [] v = 3 -> Slice(EncTmp(3, K, n), 0, 32)
    [] v = 4 -> Slice(EncTmp(4, K, n), 0, 32)

EncIv(v, K, n) ==
  CASE v = 1 -> Slice(n, 16, 32)
    [] v = 3 -> Slice(EncTmp(3, K, n), 32, 48)
    [] v = 4 -> Slice(EncTmp(4, K, n), 32, 56)

AuthKey(v, K, n) ==
  CASE v = 1 -> Hkdf(Slice(n, 0, 16), K, AKLit, 32)
    [] v = 3 -> Hkdf(EmptyT, K, Concat(<<AKLit, n>>), 48)
    [] v = 4 -> Mac("blake2b-32", K, Concat(<<AKLit, n>>))

CipherAlg(v) == IF v = 4 THEN "xchacha20" ELSE "aes-256-ctr"
TagAlg(v)    == IF v = 4 THEN "blake2b-32" ELSE "hmac-sha384"

\* the nonce that goes on the wire, from the caller's nonce seed S and the message M
WireNonce(v, S, M) ==
  CASE v = 1 -> Slice(Mac("hmac-sha384", S, M), 0, 32)
    [] v = 2 -> Mac("blake2b-24", S, M)
    [] OTHER -> S

LocalPieces(v, n, c, F, A) ==
  IF HasAssertion(v) THEN <<Hdr(<<v, "local">>), n, c, F, A>>
                     ELSE <<Hdr(<<v, "local">>), n, c, F>>

V2Aad(n, F) == Pae(<<Hdr(<<2, "local">>), n, F>>)

PublicPieces(v, pk, M, F, A) ==
  CASE v \in {1, 2} -> <<Hdr(<<v, "public">>), M, F>>
    [] v = 3       -> <<pk, Hdr(<<3, "public">>), M, F, A>>
    [] v = 4       -> <<Hdr(<<4, "public">>), M, F, A>>

Fld(name, t) == [name |-> name, t |-> t]

\* the decoded payload of the token the PASETO specification prescribes, as named fields,
\* for a given wire nonce n (local protocols)
MintFieldsN(pr, K, n, M, F, A) ==
  LET v == pr[1] IN
  IF pr[2] = "local" THEN
    IF v = 2 THEN
      <<Fld("nonce", n), Fld("body", Aead("xchacha20-poly1305", K, n, M, V2Aad(n, F)))>>
    ELSE
      LET c == Enc(CipherAlg(v), EncKey(v, K, n), EncIv(v, K, n), M)
          t == Mac(TagAlg(v), AuthKey(v, K, n), Pae(LocalPieces(v, n, c, F, A)))
      IN <<Fld("nonce", n), Fld("body", c), Fld("tag", t)>>
  ELSE
    LET alg == SigAlg(v)
        sk  == Sk(alg, K)
    IN <<Fld("msg", M), Fld("sig", Sig(alg, sk, Pae(PublicPieces(v, Pk(alg, sk), M, F, A))))>>

\* ... with the wire nonce derived from the caller's nonce seed S as Version1/2.md prescribe
MintFields(pr, K, S, M, F, A) == MintFieldsN(pr, K, WireNonce(pr[1], S, M), M, F, A)

(***************************************************************************)
(* Wire form of a token: header text, decoded payload as fields, whether   *)
(* the payload text is canonical unpadded base64url, number of             *)
(* '.'-separated segments and the footer segment.                          *)
(***************************************************************************)
NoFooterSeg == [form |-> "canon", t |-> EmptyT]
BadHdr == <<0, "bad">>

Origin(pr, k, s, m, f, a) == [pr |-> pr, k |-> k, s |-> s, m |-> m, f |-> f, a |-> a]

\* Paseto::format_token
MintWire(o) ==
  LET F == FB(o.f)
      A == IF HasAssertion(o.pr[1]) THEN AB(o.a) ELSE EmptyT
      four == ~IsEmptyT(F) \/ (o.f = "empty" /\ ~FixD5)
  IN [hdr    |-> o.pr,
      fields |-> MintFields(o.pr, KeyT(o.k), SeedT(o.s), MsgT(o.m), F, A),
      pform  |-> "canon",
      nseg   |-> IF four THEN 4 ELSE 3,
      fseg   |-> [form |-> "canon", t |-> F]]

(***************************************************************************)
(* Slicing the decoded payload by byte offsets, as the implementation      *)
(* does.  A slice that coincides with whole fields is those fields; any    *)
(* other slice is an opaque Slice term that equals nothing legitimate.     *)
(***************************************************************************)
RECURSIVE StartOf(_, _)
StartOf(fs, i) == IF i = 1 THEN 0 ELSE StartOf(fs, i - 1) + TLen(fs[i - 1].t)
Total(fs) == StartOf(fs, Len(fs) + 1)
Whole(fs) == Concat([x \in 1..Len(fs) |-> fs[x].t])

Cut(fs, a, b) ==
  IF a >= b THEN EmptyT
  ELSE
    LET I == {i \in 1..Len(fs) : StartOf(fs, i) = a /\ TLen(fs[i].t) > 0}
        J == {j \in 1..Len(fs) : StartOf(fs, j + 1) = b /\ TLen(fs[j].t) > 0}
    IN IF I # {} /\ J # {}
       THEN LET i == CHOOSE x \in I : TRUE
                j == CHOOSE x \in J : TRUE
            IN Concat([x \in 1..(j - i + 1) |-> fs[i + x - 1].t])
       ELSE Slice(Whole(fs), a, b)

(***************************************************************************)
(* Outcomes                                                                *)
(***************************************************************************)
OkR(m)      == [res |-> "ok",    why |-> "",   val |-> m]
ErrPre(why) == [res |-> "pre",   why |-> why,  val |-> EmptyT]
ErrPost(why)== [res |-> "post",  why |-> why,  val |-> EmptyT]
PanicR(why) == [res |-> "panic", why |-> why,  val |-> EmptyT]

(***************************************************************************)
(* Paseto::parse_raw_token: "" = go on, otherwise the PasetoError variant  *)
(***************************************************************************)
ParseRaw(w, pr, F) ==
  IF w.nseg \notin {3, 4} THEN "IncorrectSize"
  ELSE IF w.nseg = 4 /\ ~(w.fseg.form = "canon" /\ w.fseg.t = F) THEN "FooterInvalid"
  ELSE IF w.nseg = 3 /\ ~IsEmptyT(F) /\ FixD6 THEN "FooterInvalid"
  ELSE IF w.hdr # pr THEN "WrongHeader"
  ELSE IF w.pform # "canon" THEN "PayloadBase64Decode"
  ELSE ""

\* the pinned commit slices without a length check
LegacyPanics(pr, tot) ==
  IF pr = <<2, "local">> THEN tot < 24 ELSE tot < MinPayload(pr)

(***************************************************************************)
(* try_decrypt / try_verify of protocol pr under key bundle k, expected    *)
(* footer f and implicit assertion a                                       *)
(***************************************************************************)
Present(w, pr, k, f, a) ==
  LET v   == pr[1]
      F   == FB(f)
      A   == IF HasAssertion(v) THEN AB(a) ELSE EmptyT
      K   == KeyT(k)
      e   == ParseRaw(w, pr, F)
      fs  == w.fields
      tot == Total(fs)
  IN
  IF e # "" THEN ErrPre(e)
  ELSE IF ~FixD2 /\ LegacyPanics(pr, tot) THEN PanicR("slice")
  ELSE IF tot < MinPayload(pr) THEN ErrPre("Short")
  ELSE IF pr[2] = "local" THEN
    IF v = 2 THEN
      LET n == Cut(fs, 0, 24)
          c == Cut(fs, 24, tot)
      IN IF AeadOpens("xchacha20-poly1305", K, n, c, V2Aad(n, F))
         THEN (IF IsText(AeadPlain(c)) THEN OkR(AeadPlain(c)) ELSE ErrPost("Utf8"))
         ELSE ErrPre("Auth")
    ELSE
      LET n  == Cut(fs, 0, 32)
          c  == Cut(fs, 32, tot - TagLen(v))
          t  == Cut(fs, tot - TagLen(v), tot)
          t2 == Mac(TagAlg(v), AuthKey(v, K, n), Pae(LocalPieces(v, n, c, F, A)))
      IN IF t # t2 THEN ErrPre("Auth")
         ELSE LET m == Dec(CipherAlg(v), EncKey(v, K, n), EncIv(v, K, n), c)
              IN IF IsText(m) THEN OkR(m) ELSE ErrPost("Utf8")
  ELSE
    LET alg == SigAlg(v)
        pk  == Pk(alg, Sk(alg, K))
        m   == Cut(fs, 0, tot - SigLen(v))
        s   == Cut(fs, tot - SigLen(v), tot)
    IN IF SigVerifies(alg, pk, Pae(PublicPieces(v, pk, m, F, A)), s)
       THEN (IF IsText(m) THEN OkR(m) ELSE ErrPost("Utf8"))
       ELSE ErrPre("Auth")

(***************************************************************************)
(* The adversary.  An edit is a record [k, a, b, pr]; kinds are classes of *)
(* concrete text edits which the harness expands to all positions.         *)
(***************************************************************************)
E(k, a, b) == [k |-> k, a |-> a, b |-> b, pr |-> BadHdr]
ERelabel(pr) == [k |-> "relabel", a |-> "", b |-> "", pr |-> pr]

HasField(fs, name) == \E i \in 1..Len(fs) : fs[i].name = name
FieldIdx(fs, name) == CHOOSE i \in 1..Len(fs) : fs[i].name = name
DropAt(fs, i) == [x \in 1..(Len(fs) - 1) |-> IF x < i THEN fs[x] ELSE fs[x + 1]]
InsertAfter(fs, i, fld) ==
  [x \in 1..(Len(fs) + 1) |-> IF x <= i THEN fs[x] ELSE IF x = i + 1 THEN fld ELSE fs[x - 1]]

\* what a second authentic token differs in (for splices)
SpliceVariants == {"key", "msg", "seed", "footer", "assertion"}
OtherOrigin(o, variant) ==
  CASE variant = "key"       -> [o EXCEPT !.k = "k2"]
    [] variant = "msg"       -> [o EXCEPT !.m = "m2"]
    [] variant = "seed"      -> [o EXCEPT !.s = "s2"]
    [] variant = "footer"    -> [o EXCEPT !.f = IF o.f = "f1" THEN "f2" ELSE "f1"]
    [] variant = "assertion" -> [o EXCEPT !.a = IF o.a = "a1" THEN "a2" ELSE "a1"]

FieldNames == {"nonce", "body", "tag", "msg", "sig"}

\* the wire after edit e (unchanged when the edit does not apply)
ApplyEdit(o, w, e) ==
  LET fs == w.fields
      n  == Len(fs)
  IN
  CASE e.k = "flip" /\ HasField(fs, e.a) ->
         LET i == FieldIdx(fs, e.a) IN [w EXCEPT !.fields[i].t = Garble("flip", fs[i].t)]
    [] e.k = "trunc-tail" /\ n > 0 ->
         LET l == TLen(fs[n].t) IN
         IF l <= 1 THEN [w EXCEPT !.fields = DropAt(fs, n)]
         ELSE [w EXCEPT !.fields[n].t = Slice(fs[n].t, 0, l - 1)]
    [] e.k = "trunc-head" /\ n > 0 ->
         LET l == TLen(fs[1].t) IN
         IF l <= 1 THEN [w EXCEPT !.fields = DropAt(fs, 1)]
         ELSE [w EXCEPT !.fields[1].t = Slice(fs[1].t, 1, l)]
    [] e.k = "drop-field" /\ HasField(fs, e.a) ->
         [w EXCEPT !.fields = DropAt(fs, FieldIdx(fs, e.a))]
    [] e.k = "extend-tail" -> [w EXCEPT !.fields = InsertAfter(fs, n, Fld("junk", Junk(1)))]
    [] e.k = "extend-head" -> [w EXCEPT !.fields = InsertAfter(fs, 0, Fld("junk", Junk(1)))]
    [] e.k = "insert-after" /\ HasField(fs, e.a) /\ FieldIdx(fs, e.a) < n ->
         [w EXCEPT !.fields = InsertAfter(fs, FieldIdx(fs, e.a), Fld("junk", Junk(1)))]
    [] e.k = "splice" /\ HasField(fs, e.a) /\ w.hdr = o.pr ->
         LET o2  == OtherOrigin(o, e.b)
             fs2 == MintWire(o2).fields
             i   == FieldIdx(fs, e.a)
         IN IF HasField(fs2, e.a)
            THEN [w EXCEPT !.fields[i].t = fs2[FieldIdx(fs2, e.a)].t]
            ELSE w
    [] e.k = "sig-reencode" /\ HasField(fs, "sig") /\ o.pr = <<3, "public">> ->
         LET i == FieldIdx(fs, "sig") IN
         IF fs[i].t.op = "sig" THEN [w EXCEPT !.fields[i].t = Reencode(fs[i].t)] ELSE w
    [] e.k = "pay-noncanon" -> [w EXCEPT !.pform = "noncanon"]
    [] e.k = "hdr-bad" -> [w EXCEPT !.hdr = BadHdr]
    [] e.k = "relabel" -> [w EXCEPT !.hdr = e.pr]
    [] e.k = "foot-drop" /\ w.nseg = 4 -> [w EXCEPT !.nseg = 3, !.fseg = NoFooterSeg]
    [] e.k = "foot-add-empty" /\ w.nseg = 3 -> [w EXCEPT !.nseg = 4, !.fseg = NoFooterSeg]
    [] e.k = "foot-add" /\ w.nseg = 3 -> [w EXCEPT !.nseg = 4, !.fseg = [form |-> "canon", t |-> FB(e.b)]]
    [] e.k = "foot-replace" /\ w.nseg = 4 -> [w EXCEPT !.fseg = [form |-> "canon", t |-> FB(e.b)]]
    [] e.k = "foot-noncanon" /\ w.nseg = 4 -> [w EXCEPT !.fseg.form = "noncanon"]
    [] e.k = "foot-garble" /\ w.nseg = 4 /\ ~IsEmptyT(w.fseg.t) ->
         [w EXCEPT !.fseg.t = Garble("flip", w.fseg.t)]
    \* the footer segment cut to a proper prefix / extended by further characters
    [] e.k = "foot-trunc" /\ w.nseg = 4 /\ ~IsEmptyT(w.fseg.t) ->
         [w EXCEPT !.fseg.t = Slice(w.fseg.t, 0, TLen(w.fseg.t) - 1)]
    [] e.k = "foot-extend" /\ w.nseg = 4 ->
         [w EXCEPT !.fseg.t = Concat(<<w.fseg.t, Junk(1)>>)]
    [] e.k = "extra-seg" /\ w.nseg \in {3, 4} -> [w EXCEPT !.nseg = w.nseg + 2 - (w.nseg - 3)]
    [] e.k = "few-seg" -> [w EXCEPT !.nseg = 2, !.fseg = NoFooterSeg]
    \* the token text cut inside the payload segment: no footer segment is left
    [] e.k = "prefix-payload" /\ n > 0 ->
         LET l == TLen(fs[n].t) IN
         [w EXCEPT !.nseg = 3, !.fseg = NoFooterSeg,
                   !.fields = IF l <= 1 THEN DropAt(fs, n) ELSE [fs EXCEPT ![n].t = Slice(fs[n].t, 0, l - 1)]]
    \* a '.' inserted inside the payload segment: its tail becomes a (bogus) footer segment
    [] e.k = "dot-insert" /\ n > 0 /\ w.nseg \in {3, 4} ->
         LET l == TLen(fs[n].t) IN
         IF w.nseg = 4 THEN [w EXCEPT !.nseg = 5]
         ELSE [w EXCEPT !.nseg = 4, !.fseg = [form |-> "canon", t |-> Garble("tail", fs[n].t)],
                        !.fields = IF l <= 1 THEN DropAt(fs, n) ELSE [fs EXCEPT ![n].t = Slice(fs[n].t, 0, l - 1)]]
    \* many bytes of the decoded payload replaced at once
    [] e.k = "random-multi" /\ n > 0 ->
         [w EXCEPT !.fields = <<Fld("junk", Garble("multi", Whole(fs)))>>]
    [] OTHER -> w

\* every edit kind of the alphabet (DESIGN.md 4.3)
EditAlphabet ==
       {E("flip", f, "") : f \in FieldNames}
  \cup {E("drop-field", f, "") : f \in FieldNames}
  \cup {E("insert-after", f, "") : f \in FieldNames}
  \cup {E("splice", f, var) : f \in FieldNames, var \in SpliceVariants}
  \cup {E(k, "", "") : k \in {"trunc-tail", "trunc-head", "extend-tail", "extend-head",
                               "sig-reencode", "pay-noncanon", "hdr-bad", "foot-drop",
                               "foot-add-empty", "foot-noncanon", "foot-garble",
                               "foot-trunc", "foot-extend", "prefix-payload", "dot-insert",
                               "random-multi",
                               "extra-seg", "few-seg"}}
  \cup {E("foot-add", "", f) : f \in {"f1", "f2"}}
  \cup {E("foot-replace", "", f) : f \in {"empty", "f1", "f2"}}
  \cup {ERelabel(pr) : pr \in Protocols}

(***************************************************************************)
(* Ghost predicates over a token state [o, w]                              *)
(***************************************************************************)
\* tolerated differences (C03): an added empty footer segment; a re-encoded signature
NormW(w) ==
  [w EXCEPT
     !.nseg   = IF w.nseg = 4 /\ w.fseg = NoFooterSeg THEN 3 ELSE w.nseg,
     !.fields = [i \in 1..Len(w.fields) |->
                   IF w.fields[i].t.op = "sig" THEN [w.fields[i] EXCEPT !.t.n1 = 0] ELSE w.fields[i]]]

Unaltered(o, w) == w = MintWire(o)
Tolerated(o, w) == NormW(w) = NormW(MintWire(o))

Matches(o, pr, k, f, a) ==
  /\ pr = o.pr
  /\ k = o.k
  /\ FB(f) = FB(o.f)
  /\ (HasAssertion(pr[1]) => AB(a) = AB(o.a))

\* presentation parameters: assertions exist for v3/v4 only
AssertsFor(pr) == IF HasAssertion(pr[1]) THEN AssertNames ELSE {"none"}
Pres == {p \in [pr : Protocols, k : KeyNames, f : FooterNames, a : AssertNames] : p.a \in AssertsFor(p.pr)}
PresentP(w, p) == Present(w, p.pr, p.k, p.f, p.a)
MatchesP(o, p) == Matches(o, p.pr, p.k, p.f, p.a)

\* the outcome class the listed properties allow for presenting a token to p, given
\* whether the token is unaltered (un) / tolerated (tol) with respect to its origin o
ExpectOf(un, tol, o, p) ==
  IF un THEN (IF MatchesP(o, p) THEN "ok" ELSE "pre")
  ELSE IF tol /\ MatchesP(o, p) THEN "tol"
  ELSE "pre"

Expect(o, w, p) == ExpectOf(Unaltered(o, w), Tolerated(o, w), o, p)

Allowed(exp, r, o) ==
  CASE exp = "ok"  -> r = OkR(MsgT(o.m))
    [] exp = "pre" -> r.res = "pre"
    [] exp = "tol" -> r = OkR(MsgT(o.m)) \/ r.res = "pre"

\* the result of every presentation of w
Results(w) == [p \in Pres |-> PresentP(w, p)]

(***************************************************************************)
(* Properties, as predicates over a token state and the result function R  *)
(* = Results(w).  MC_Core checks them in every reachable state, i.e. for   *)
(* every presentation of every reachable token.                            *)
(***************************************************************************)
\* C01 / C02
RoundTrip(o, w, R) ==
  Unaltered(o, w) => \A p \in Pres : MatchesP(o, p) => R[p] = OkR(MsgT(o.m))

\* C03: acceptance implies a tolerated token, matching parameters and the original message;
\*      every rejection is raised before plaintext is handled
Integrity(o, w, R) ==
  LET tol == Tolerated(o, w) IN
  \A p \in Pres :
    /\ R[p].res = "ok" => (tol /\ R[p].val = MsgT(o.m))
    /\ R[p].res # "ok" => R[p].res \in {"pre", "panic"}

\* C04 - C07: what an accepting presentation must agree with
KeyBound(o, R)    == \A p \in Pres : R[p].res = "ok" => p.k = o.k
FooterBound(o, R) == \A p \in Pres : R[p].res = "ok" => FB(p.f) = FB(o.f)
AssertBound(o, R) == \A p \in Pres : R[p].res = "ok" /\ HasAssertion(p.pr[1]) => AB(p.a) = AB(o.a)
ProtoBound(o, R)  == \A p \in Pres : R[p].res = "ok" => p.pr = o.pr
\* ... and the converse on unaltered tokens
AcceptIff(o, w, R) ==
  Unaltered(o, w) => \A p \in Pres : (R[p].res = "ok") <=> MatchesP(o, p)

\* C05 / C08: the footer segment of a produced token
FooterSeg(o) ==
  LET mw == MintWire(o) IN
  /\ (mw.nseg = 4) <=> ~IsEmptyT(FB(o.f))
  /\ mw.fseg = [form |-> "canon", t |-> FB(o.f)]

\* C06: the assertion occurs only under a MAC or signature
ClearWire(w) == UNION {Clear(w.fields[i].t) : i \in 1..Len(w.fields)} \cup Clear(w.fseg.t)
Hidden(o) == ~IsEmptyT(AB(o.a)) => o.a \notin ClearWire(MintWire(o))

\* C09
NoPanic(R) == \A p \in Pres : R[p].res # "panic"

\* the prediction handed to the harness is what the step-by-step model computes
PredictionSound(o, w, R) ==
  LET un == Unaltered(o, w)  tol == Tolerated(o, w) IN
  \A p \in Pres : Allowed(ExpectOf(un, tol, o, p), R[p], o)
=============================================================================
