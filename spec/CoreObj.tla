------------------------------- MODULE CoreObj -------------------------------
(***************************************************************************)
(* The core-layer builder object Paseto<V,P> (src/core/paseto.rs): a       *)
(* payload, an optional footer and an optional implicit assertion are set  *)
(* on the object and try_encrypt / try_sign mint a token from the values   *)
(* set at that moment.  The object can be used for any number of tokens:   *)
(* minting does not change it.                                             *)
(***************************************************************************)
EXTENDS Core

CInit == [m |-> "m1", f |-> "none", a |-> "none"]

COp(op, v, k, s) == [op |-> op, v |-> v, k |-> k, s |-> s]

CApply(c, o) ==
  CASE o.op = "payload"   -> [c EXCEPT !.m = o.v]
    [] o.op = "footer"    -> [c EXCEPT !.f = o.v]
    [] o.op = "assertion" -> [c EXCEPT !.a = o.v]
    [] o.op = "mint"      -> c
    \* the program goes on with a clone of the object (Paseto is Clone + Copy): nothing changes
    [] o.op = "clone"     -> c

\* the token a mint call must produce in state c
MintOrigin(pr, c, o) == Origin(pr, o.k, o.s, c.m, c.f, IF HasAssertion(pr[1]) THEN c.a ELSE "none")

\* a read-back of the minted token under presentation p observed as [res, msg]
ReadAllowed(pr, c, o, p, obs) ==
  LET org == MintOrigin(pr, c, o)
      exp == Expect(org, MintWire(org), p)
  IN CASE exp = "ok"  -> obs.res = "ok" /\ obs.msg = c.m
       [] exp = "pre" -> obs.res = "pre"
       [] OTHER       -> obs.res \in {"ok", "pre"}
=============================================================================
