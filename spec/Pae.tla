-------------------------------- MODULE Pae --------------------------------
(***************************************************************************)
(* Common.md, byte level: pre-authentication encoding.                     *)
(*   PAE(p1..pn) = LE64(n) || LE64(len p1) || p1 || ... || LE64(len pn) || pn *)
(* The symbolic Pae constructor of Terms.tla treats two encodings as equal *)
(* iff their piece lists are equal; that is sound because PAE is           *)
(* injective - in particular (footer, assertion) pairs with the same       *)
(* concatenation but a different split encode differently (C06).           *)
(* Injectivity is shown constructively: UnPae inverts Pae.                 *)
(***************************************************************************)
EXTENDS Naturals, Sequences

Byte == 0..255

\* little-endian 64-bit (TLC integers are 32-bit: computed digit by digit; the lengths met here are
\* far below 2^63, so clearing the most significant bit is the identity)
RECURSIVE LEDigits(_, _)
LEDigits(n, k) == IF k = 0 THEN <<>> ELSE <<n % 256>> \o LEDigits(n \div 256, k - 1)
LE64(n) == LEDigits(n, 8)

RECURSIVE Horner(_, _)
Horner(bs, i) == IF i > 8 THEN 0 ELSE bs[i] + 256 * Horner(bs, i + 1)
UnLE64(bs) == Horner(bs, 1)

RECURSIVE Flatten(_)
Flatten(ps) == IF ps = <<>> THEN <<>> ELSE LE64(Len(Head(ps))) \o Head(ps) \o Flatten(Tail(ps))

Pae(ps) == LE64(Len(ps)) \o Flatten(ps)

\* the inverse: read the count, then count (length, piece) pairs; "bad" if the bytes are no encoding
RECURSIVE Take(_, _)
Take(bs, n) ==
  IF n = 0 THEN [ok |-> bs = <<>>, pieces |-> <<>>]
  ELSE IF Len(bs) < 8 THEN [ok |-> FALSE, pieces |-> <<>>]
  ELSE LET l == UnLE64(SubSeq(bs, 1, 8)) IN
       IF Len(bs) < 8 + l THEN [ok |-> FALSE, pieces |-> <<>>]
       ELSE LET rest == Take(SubSeq(bs, 9 + l, Len(bs)), n - 1) IN
            [ok |-> rest.ok, pieces |-> <<SubSeq(bs, 9, 8 + l)>> \o rest.pieces]

UnPae(bs) ==
  IF Len(bs) < 8 THEN [ok |-> FALSE, pieces |-> <<>>]
  ELSE Take(SubSeq(bs, 9, Len(bs)), UnLE64(SubSeq(bs, 1, 8)))

\* the statements checked by MC_Pae over a bounded universe of piece lists
RoundTrips(ps) == UnPae(Pae(ps)) = [ok |-> TRUE, pieces |-> ps]
Injective(U) == \A ps \in U, qs \in U : Pae(ps) = Pae(qs) => ps = qs
=============================================================================
