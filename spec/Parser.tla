------------------------------- MODULE Parser -------------------------------
(***************************************************************************)
(* GenericParser (src/generic/parsers/generic_parser.rs) and PasetoParser  *)
(* (src/prelude/paseto_parser.rs) as state machines, composed with the     *)
(* token life-cycle of Core.tla: parse = Core!Present, then verify_claims  *)
(* on the authenticated payload.                                           *)
(*                                                                         *)
(* HashMap iteration order is unspecified, so verify_claims is modelled    *)
(* as "the expected claims are processed in some order, the first failure  *)
(* ends the parse"; ParseAllowed accepts exactly the observations that     *)
(* some order explains.                                                    *)
(***************************************************************************)
EXTENDS Core

CONSTANTS
  FixD3,   \* default exp/nbf validators reject present values that are not RFC 3339 strings
  FixD7    \* validators registered without an expected claim run as well

PKeys == {"exp", "nbf", "iat", "iss", "ca", "cb"}

\* payload value classes: generic values and, for exp / nbf, classes of time values
PAbsent == "absent"
GenericVals == {"absent", "null", "v1", "v2"}
TimeVals == {"absent", "null", "past", "future", "nonstr", "emptystr", "garbage"}
\* "soon": an instant a few seconds after the parser history starts - in the future until the clock of
\* the history ticks, in the past afterwards (time passing is an action of the model: "tick")
SoonVal == "soon"

NoV == "none"
VKinds == {"accept", "reject", "magic", "expdflt", "nbfdflt"}

\* GenericParser::new / PasetoParser::default (which registers the exp and nbf validators
\* through validate_claim, i.e. together with an expected-claim entry whose value is ignored)
PInit(layer, pr) ==
  [layer  |-> layer,
   pr     |-> pr,
   expect |-> [k \in PKeys |-> IF layer = "prelude" /\ k \in {"exp", "nbf"} THEN "any" ELSE PAbsent],
   valid  |-> [k \in PKeys |-> IF layer = "prelude" /\ k = "exp" THEN "expdflt"
                               ELSE IF layer = "prelude" /\ k = "nbf" THEN "nbfdflt" ELSE NoV],
   footer |-> "none",
   assertion |-> "none",
   clock  |-> 0]

CheckClaim(ps, k, v)       == [ps EXCEPT !.expect[k] = v]
ValidateClaim(ps, k, kind) == [ps EXCEPT !.expect[k] = "any", !.valid[k] = kind]
ExtendValidators(ps, k, kind) == [ps EXCEPT !.valid[k] = kind]
ExtendChecks(ps, k, v)     == [ps EXCEPT !.expect[k] = v]
PSetFooter(ps, f)          == [ps EXCEPT !.footer = f]
PSetAssertion(ps, a)       == [ps EXCEPT !.assertion = a]

POp(op, k, v) == [op |-> op, k |-> k, v |-> v]

\* parse does not change the parser: the outcome for a token cannot depend on earlier parses (C15)
PApply(ps, o) ==
  CASE o.op = "check"     -> CheckClaim(ps, o.k, o.v)
    [] o.op = "validate"  -> ValidateClaim(ps, o.k, o.v)
    [] o.op = "extvalid"  -> ExtendValidators(ps, o.k, o.v)
    [] o.op = "extcheck"  -> ExtendChecks(ps, o.k, o.v)
    [] o.op = "footer"    -> PSetFooter(ps, o.v)
    [] o.op = "assertion" -> PSetAssertion(ps, o.v)
    [] o.op = "parse"     -> ps
    [] o.op = "tick"      -> [ps EXCEPT !.clock = 1]

(***************************************************************************)
(* A token presented to a parser: how it was minted (Core origin), one     *)
(* optional adversary edit, whether its message is a JSON object, and the  *)
(* claims of that object.                                                  *)
(***************************************************************************)
NoEdit == E("none", "", "")
\* the protocol whose header a relabelled token of protocol pr carries in the parser histories: the next
\* version of the same purpose (a header of the same length)
RelabelTarget(pr) == <<(pr[1] % 4) + 1, pr[2]>>
Tok(o, e, isjson, claims) == [o |-> o, e |-> e, json |-> isjson, claims |-> claims]
WireOf(t) == IF t.e = NoEdit THEN MintWire(t.o) ELSE ApplyEdit(t.o, MintWire(t.o), t.e)

(***************************************************************************)
(* Verdict of a validator kind on a payload value class                    *)
(***************************************************************************)
\* the class of a time value at the current clock of the history
AtClock(pv, clock) == IF pv = SoonVal THEN (IF clock = 0 THEN "future" ELSE "past") ELSE pv

VerdictAt(kind, pv0, clock) ==
  LET pv == AtClock(pv0, clock) IN
  CASE kind = "accept"  -> TRUE
    [] kind = "reject"  -> FALSE
    [] kind = "magic"   -> pv = "v1"
    [] kind = "expdflt" -> IF pv \in {"absent", "null", "future"} THEN TRUE
                           ELSE IF pv \in {"nonstr", "emptystr"} THEN ~FixD3
                           ELSE FALSE
    [] kind = "nbfdflt" -> IF pv \in {"absent", "null", "past"} THEN TRUE
                           ELSE IF pv \in {"nonstr", "emptystr"} THEN ~FixD3
                           ELSE FALSE

Verdict(kind, pv) == VerdictAt(kind, pv, 0)

IsNullish(pv) == pv \in {"absent", "null"}

\* GenericParser::verify_claims: the keys of the expected-claim map, then (FixD7) the
\* validators without an expected claim
Phase1(ps) == {k \in PKeys : ps.expect[k] # PAbsent}
Phase2(ps) == IF FixD7 THEN {k \in PKeys : ps.valid[k] # NoV /\ ps.expect[k] = PAbsent} ELSE {}
HasV(ps, k) == ps.valid[k] # NoV

Passes(ps, t, k) ==
  IF HasV(ps, k) THEN VerdictAt(ps.valid[k], t.claims[k], ps.clock)
  ELSE ~IsNullish(t.claims[k]) /\ t.claims[k] = ps.expect[k]

FailKind(ps, t, k) ==
  IF HasV(ps, k) THEN "validator"
  ELSE IF IsNullish(t.claims[k]) THEN "missing" ELSE "mismatch"

\* the harness' validators log their calls; the default exp / nbf validators of
\* PasetoParser are closures of the library and cannot be observed
Logged(ps, k) == ps.valid[k] \in {"accept", "reject", "magic"}

\* a validator is called with the key and the payload value (null when absent)
CallOf(ps, t, k) == <<k, ps.valid[k], IF t.claims[k] = "absent" THEN "null" ELSE t.claims[k]>>

\* whether the claims of an authentic JSON token satisfy the parser's configuration
ClaimsAccepted(ps, t) == \A k \in Phase1(ps) \cup Phase2(ps) : Passes(ps, t, k)

CoreOutcome(ps, t, key) == Present(WireOf(t), ps.pr, key, ps.footer, ps.assertion)

(***************************************************************************)
(* obs = [res, errkey, errkind, calls] is an allowed observation of        *)
(* parse(t, key) on parser ps.  calls is the sequence of <<key, kind,      *)
(* value class>> the validators logged.                                    *)
(***************************************************************************)
CallSet(obs) == {<<obs.calls[i][1], obs.calls[i][2], obs.calls[i][3]>> : i \in 1..Len(obs.calls)}

\* the error of a failing item: a missing claim is reported as a missing-claim error (C15); a differing value
\* or a rejecting validator as some other claim error (the properties do not fix the variant); an error that
\* names a claim names the failing one
ErrMatches(ps, t, obs, x) ==
  /\ IF FailKind(ps, t, x) = "missing" THEN obs.errkind = "missing" ELSE obs.errkind \in {"mismatch", "validator"}
  /\ obs.errkey \in {x, ""}

ParseAllowed(ps, t, key, obs) ==
  LET core == CoreOutcome(ps, t, key)
      V1 == {k \in Phase1(ps) : HasV(ps, k)}
      V2 == Phase2(ps)
      F1 == {k \in Phase1(ps) : ~Passes(ps, t, k)}
      F2 == {k \in Phase2(ps) : ~Passes(ps, t, k)}
      C(S) == {CallOf(ps, t, k) : k \in {x \in S : Logged(ps, x)}}
      CS == CallSet(obs)
  IN
  IF core.res # "ok" THEN obs.res = "pre" /\ obs.calls = <<>>
  ELSE IF ~t.json THEN obs.res = "json" /\ obs.calls = <<>>
  ELSE
    /\ Cardinality(CS) = Len(obs.calls)      \* every validator at most once
    /\ \/ /\ obs.res = "ok"
          /\ F1 = {} /\ F2 = {}
          /\ CS = C(V1 \cup V2)
       \/ /\ obs.res = "claim"
          /\ \/ \E x \in F1 :
                  /\ ErrMatches(ps, t, obs, x)
                  /\ \E P \in SUBSET {k \in V1 \ {x} : Passes(ps, t, k)} :
                        CS = C(P) \cup (IF HasV(ps, x) THEN C({x}) ELSE {})
             \/ /\ F1 = {}
                /\ \E x \in F2 :
                     /\ ErrMatches(ps, t, obs, x)
                     /\ \E P \in SUBSET {k \in V2 \ {x} : Passes(ps, t, k)} :
                           CS = C(V1) \cup C(P) \cup C({x})

\* what the code-shaped model itself may observe (one witness per processing order is enough
\* for the design-level checks: the first failing key in a fixed order)
ModelObs(ps, t, key) ==
  LET core == CoreOutcome(ps, t, key)
      V1 == {k \in Phase1(ps) : HasV(ps, k)}
      F1 == {k \in Phase1(ps) : ~Passes(ps, t, k)}
      F2 == {k \in Phase2(ps) : ~Passes(ps, t, k)}
      seqOf(S) == LET RECURSIVE mk(_) mk(R) == IF R = {} THEN <<>> ELSE LET x == CHOOSE y \in R : TRUE IN <<x>> \o mk(R \ {x}) IN mk(S)
      callsOf(S0) == LET S == {x \in S0 : Logged(ps, x)} IN [i \in 1..Cardinality(S) |-> CallOf(ps, t, seqOf(S)[i])]
  IN
  IF core.res # "ok" THEN [res |-> "pre", errkey |-> "", errkind |-> "", calls |-> <<>>]
  ELSE IF ~t.json THEN [res |-> "json", errkey |-> "", errkind |-> "", calls |-> <<>>]
  ELSE IF F1 # {} THEN
    LET x == CHOOSE y \in F1 : TRUE IN
    [res |-> "claim", errkey |-> x, errkind |-> FailKind(ps, t, x),
     calls |-> callsOf({k \in V1 : Passes(ps, t, k)} \cup (IF HasV(ps, x) THEN {x} ELSE {}))]
  ELSE IF F2 # {} THEN
    LET x == CHOOSE y \in F2 : TRUE IN
    [res |-> "claim", errkey |-> x, errkind |-> "validator",
     calls |-> callsOf(V1 \cup {k \in Phase2(ps) : Passes(ps, t, k)} \cup {x})]
  ELSE [res |-> "ok", errkey |-> "", errkind |-> "", calls |-> callsOf(V1 \cup Phase2(ps))]

(***************************************************************************)
(* Properties of the model (MC_Parser): stated over the code-shaped        *)
(* outcome of parsing token t with key on parser ps.                       *)
(***************************************************************************)
Authentic(ps, t, key) == CoreOutcome(ps, t, key).res = "ok"

\* C15: expected claims without a validator decide exactly
ExpectIff(ps, t, key) ==
  LET obs == ModelObs(ps, t, key)
      plain == {k \in Phase1(ps) : ~HasV(ps, k)}
  IN (Authentic(ps, t, key) /\ t.json) =>
       /\ obs.res = "ok" => \A k \in plain : ~IsNullish(t.claims[k]) /\ t.claims[k] = ps.expect[k]
       /\ (obs.res = "claim" /\ obs.errkind = "missing") => IsNullish(t.claims[obs.errkey])
       /\ ((\A k \in plain : ~IsNullish(t.claims[k]) /\ t.claims[k] = ps.expect[k])
            /\ (\A k \in PKeys : HasV(ps, k) /\ (k \in Phase1(ps) \cup Phase2(ps)) => VerdictAt(ps.valid[k], t.claims[k], ps.clock)))
          => obs.res = "ok"

\* C16: validators run only on authenticated payloads, with the payload value, at most
\* once; success means every registered validator ran and accepted
ValidatorDiscipline(ps, t, key) ==
  LET obs == ModelObs(ps, t, key)
      registered == {k \in PKeys : HasV(ps, k)}
  IN /\ ~Authentic(ps, t, key) => (obs.res = "pre" /\ obs.calls = <<>>)
     /\ \A i \in 1..Len(obs.calls) : obs.calls[i] = CallOf(ps, t, obs.calls[i][1])
     /\ obs.res = "ok" => /\ CallSet(obs) = {CallOf(ps, t, k) : k \in {x \in registered : Logged(ps, x)}}
                          /\ \A k \in registered : VerdictAt(ps.valid[k], t.claims[k], ps.clock)
     /\ (Authentic(ps, t, key) /\ t.json /\ \E k \in registered : ~VerdictAt(ps.valid[k], t.claims[k], ps.clock))
          => obs.res = "claim"

\* C11 / C12 on the default parser
ExpRejects(ps, t, key) ==
  (ps.valid["exp"] = "expdflt" /\ ModelObs(ps, t, key).res = "ok") => AtClock(t.claims["exp"], ps.clock) \in {"absent", "null", "future"}
NbfRejects(ps, t, key) ==
  (ps.valid["nbf"] = "nbfdflt" /\ ModelObs(ps, t, key).res = "ok") => AtClock(t.claims["nbf"], ps.clock) \in {"absent", "null", "past"}

\* C05 / C06 at the parser layers: an unaltered token passes authentication iff the key and the footer and
\* (v3 / v4) implicit assertion configured LAST on the parser match those it was minted with - an empty
\* string counts as none, and setting the empty string replaces an earlier value
FooterAssertionIff(ps, t, key) ==
  (t.e = NoEdit) => (Authentic(ps, t, key) <=> Matches(t.o, ps.pr, key, ps.footer, ps.assertion))

\* the code-shaped outcome is one of the allowed observations
ModelAllowed(ps, t, key) == ParseAllowed(ps, t, key, ModelObs(ps, t, key))
=============================================================================
