------------------------------- MODULE Proto -------------------------------
(***************************************************************************)
(* The protocol table: everything the slicing arithmetic of try_decrypt /  *)
(* try_verify and the layout of produced tokens depends on.                *)
(***************************************************************************)
EXTENDS Naturals, Sequences

Versions  == 1..4
Purposes  == {"local", "public"}
Protocols == Versions \X Purposes

NonceLen(v) == IF v = 2 THEN 24 ELSE 32
\* length of the authentication tag that ends a local payload (v2: the Poly1305 tag
\* is the tail of the AEAD output)
TagLen(v)   == CASE v = 1 -> 48 [] v = 2 -> 16 [] v = 3 -> 48 [] v = 4 -> 32
SigLen(v)   == CASE v = 1 -> 256 [] v = 2 -> 64 [] v = 3 -> 96 [] v = 4 -> 64
HasAssertion(v) == v \in {3, 4}

MinPayload(pr) == IF pr[2] = "local" THEN NonceLen(pr[1]) + TagLen(pr[1]) ELSE SigLen(pr[1])

VStr(v) == CASE v = 1 -> "v1" [] v = 2 -> "v2" [] v = 3 -> "v3" [] v = 4 -> "v4"
HeaderStr(pr) == VStr(pr[1]) \o "." \o pr[2] \o "."
HeaderLen(pr) == IF pr[2] = "local" THEN 9 ELSE 10

SigAlg(v) == CASE v = 1 -> "rsa-pss-sha384" [] v = 2 -> "ed25519" [] v = 3 -> "ecdsa-p384" [] v = 4 -> "ed25519"
=============================================================================
