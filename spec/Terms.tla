------------------------------- MODULE Terms -------------------------------
(***************************************************************************)
(* Symbolic (Dolev-Yao style) byte strings.                                *)
(*                                                                         *)
(* Every value that travels in a PASETO token is a term of uniform record  *)
(* shape [op, tag, n1, n2, args] so that TLC can compare any two terms.    *)
(* The same term trees are used twice (DESIGN.md 3.3):                     *)
(*   - symbolically by TLC: two terms are equal iff structurally equal;    *)
(*   - concretely by the harness term evaluator (C08), which interprets    *)
(*     each operator with the real primitive.                              *)
(***************************************************************************)
EXTENDS Naturals, Sequences

T(op, tag, n1, n2, args) == [op |-> op, tag |-> tag, n1 |-> n1, n2 |-> n2, args |-> args]

\* an opaque input value (key bundle, nonce seed, message, footer, assertion) of n bytes
Atom(name, n) == T("atom", name, n, 0, <<>>)
\* a literal ASCII string fixed by the PASETO specification
Lit(s, n)     == T("lit", s, n, 0, <<>>)
EmptyT        == T("empty", "", 0, 0, <<>>)

IsEmptyT(t) == t.op = "empty"

\* concatenation in normal form: empty pieces vanish, a single piece is itself
Concat(ts) ==
  LET nz == SelectSeq(ts, LAMBDA x : ~IsEmptyT(x)) IN
  IF Len(nz) = 0 THEN EmptyT
  ELSE IF Len(nz) = 1 THEN nz[1]
  ELSE T("concat", "", 0, 0, nz)

\* bytes a .. b-1 of t
Slice(t, a, b) == IF a = b THEN EmptyT ELSE T("slice", "", a, b, <<t>>)

\* keyed hash / MAC:  tag names the algorithm and the output length
Mac(alg, key, data) == T("mac", alg, 0, 0, <<key, data>>)
\* HKDF-SHA384(salt, ikm, info) -> n bytes
Hkdf(salt, ikm, info, n) == T("hkdf", "sha384", n, 0, <<salt, ikm, info>>)
\* stream cipher: same operation encrypts and decrypts
Enc(alg, key, iv, m) == T("enc", alg, 0, 0, <<key, iv, m>>)
\* AEAD: ciphertext || 16-byte tag
Aead(alg, key, nonce, m, aad) == T("aead", alg, 0, 0, <<key, nonce, m, aad>>)
\* secret / public key of an asymmetric algorithm derived from a key bundle
Sk(alg, k) == T("sk", alg, 0, 0, <<k>>)
Pk(alg, sk) == T("pk", alg, 0, 0, <<sk>>)
\* signature; n1 = 1 marks an equivalent re-encoding of the same signature (ECDSA s-negation)
Sig(alg, sk, data) == T("sig", alg, 0, 0, <<sk, data>>)
Reencode(sig) == [sig EXCEPT !.n1 = 1 - sig.n1]
\* pre-authentication encoding of a list of pieces
Pae(pieces) == T("pae", "", 0, 0, pieces)
\* unpadded base64url text of a byte string
B64(t) == T("b64", "", 0, 0, <<t>>)
\* the adversary's handiwork: bytes that differ from t (same length), of unknown value
Garble(kind, t) == T("garble", kind, 0, 0, <<t>>)
Junk(n) == T("junk", "", n, 0, <<>>)

MacLen(alg) ==
  CASE alg = "hmac-sha384" -> 48
    [] alg = "blake2b-24"  -> 24
    [] alg = "blake2b-32"  -> 32
    [] alg = "blake2b-56"  -> 56

SigLenOf(alg) ==
  CASE alg = "rsa-pss-sha384" -> 256
    [] alg = "ed25519"        -> 64
    [] alg = "ecdsa-p384"     -> 96

PkLenOf(alg) ==
  CASE alg = "rsa-pss-sha384" -> 270
    [] alg = "ed25519"        -> 32
    [] alg = "ecdsa-p384"     -> 49

RECURSIVE TLen(_), SumLen(_, _)
SumLen(ts, i) == IF i = 0 THEN 0 ELSE TLen(ts[i]) + SumLen(ts, i - 1)
TLen(t) ==
  CASE t.op = "atom"   -> t.n1
    [] t.op = "lit"    -> t.n1
    [] t.op = "junk"   -> t.n1
    [] t.op = "empty"  -> 0
    [] t.op = "concat" -> SumLen(t.args, Len(t.args))
    [] t.op = "slice"  -> t.n2 - t.n1
    [] t.op = "mac"    -> MacLen(t.tag)
    [] t.op = "hkdf"   -> t.n1
    [] t.op = "enc"    -> TLen(t.args[3])
    [] t.op = "aead"   -> TLen(t.args[3]) + 16
    [] t.op = "sig"    -> SigLenOf(t.tag)
    [] t.op = "pk"     -> PkLenOf(t.tag)
    [] t.op = "garble" -> TLen(t.args[1])
    [] OTHER           -> 0

(***************************************************************************)
(* Inverse operations.  They succeed only on the exact term the forward    *)
(* operation built - this is the symbolic reading of "MAC/signature        *)
(* unforgeability" and "a stream cipher under another key yields garbage". *)
(***************************************************************************)
Dec(alg, key, iv, c) ==
  IF c.op = "enc" /\ c.tag = alg /\ c.args[1] = key /\ c.args[2] = iv
  THEN c.args[3] ELSE Garble("dec", c)

AeadOpens(alg, key, nonce, c, aad) ==
  c.op = "aead" /\ c.tag = alg /\ c.args[1] = key /\ c.args[2] = nonce /\ c.args[4] = aad
AeadPlain(c) == c.args[3]

\* verification ignores the encoding variant n1 only where the real algorithm does (ECDSA)
SigVerifies(alg, pk, data, s) ==
  /\ s.op = "sig" /\ s.tag = alg
  /\ Pk(alg, s.args[1]) = pk
  /\ s.args[2] = data
  /\ (s.n1 = 0 \/ alg = "ecdsa-p384")

\* the decrypted bytes are text iff they are an original message
IsText(t) == t.op = "atom" \/ t.op = "empty"

(***************************************************************************)
(* Clear(t): atoms an observer without any key can read off a term.        *)
(* MAC, KDF, signature and cipher arguments are not readable; a public     *)
(* token carries its message in clear.  Used for "the implicit assertion   *)
(* is never stored" (C06).                                                 *)
(***************************************************************************)
RECURSIVE Clear(_)
Clear(t) ==
  CASE t.op = "atom" -> {t.tag}
    [] t.op \in {"concat", "slice", "b64", "garble"} ->
         UNION {Clear(t.args[i]) : i \in 1..Len(t.args)}
    [] OTHER -> {}
=============================================================================
