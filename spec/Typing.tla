------------------------------- MODULE Typing -------------------------------
(***************************************************************************)
(* C19: the static contract of the API as a decision table.  A program is  *)
(* one call (op) on a value typed with protocol X, given a key typed with  *)
(* protocol Y (or built from Key<N>).  WellTyped says whether it must      *)
(* compile.  This is a one-step model: TLC's role is the exhaustive        *)
(* enumeration of the finite space and being the single source of the      *)
(* expected verdict; the conformance step compiles one generated program   *)
(* per tuple against the crate built from the working tree.                *)
(***************************************************************************)
EXTENDS Naturals, Proto

\* operations and the purpose / kind of key they belong to
Ops == {"core_encrypt", "core_decrypt", "core_sign", "core_verify",
        "generic_encrypt", "generic_sign", "generic_parse_local", "generic_parse_public",
        "prelude_build_local", "prelude_build_public", "prelude_parse_local", "prelude_parse_public"}

PurposeOf(op) ==
  IF op \in {"core_encrypt", "core_decrypt", "generic_encrypt", "generic_parse_local", "prelude_build_local", "prelude_parse_local"}
  THEN "local" ELSE "public"

KeyKind(op) ==
  CASE PurposeOf(op) = "local" -> "symmetric"
    [] op \in {"core_sign", "generic_sign", "prelude_build_public"} -> "private"
    [] OTHER -> "public"

\* a call on protocol X with a key of protocol Y
CallWellTyped(op, X, Y) == X = Y /\ PurposeOf(op) = X[2]

\* set_implicit_assertion exists for v3 / v4 only
AssertionTypes == {"Paseto", "GenericBuilder", "GenericParser", "PasetoBuilder", "PasetoParser"}
AssertionWellTyped(ty, X) == HasAssertion(X[1])

\* key constructors from fixed-size key material Key<N>
KeySizes == {24, 32, 48, 49, 64}
KeyCtors == {"symmetric", "private", "public", "nonce"}
CtorWellTyped(kind, X, n) ==
  CASE kind = "symmetric" -> X[2] = "local" /\ n = 32
    [] kind = "private"   -> X[2] = "public" /\ ((X[1] \in {2, 4} /\ n = 64) \/ (X[1] = 3 /\ n = 48))
    [] kind = "public"    -> X[2] = "public" /\ ((X[1] \in {2, 4} /\ n = 32) \/ (X[1] = 3 /\ n = 49))
    [] kind = "nonce"     -> X[2] = "local" /\ (n = 32 \/ (X[1] = 2 /\ n = 24))
=============================================================================
