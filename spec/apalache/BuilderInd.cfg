CONSTANTS
  FixD4 = TRUE
