----------------------------- MODULE BuilderInd -----------------------------
(***************************************************************************)
(* Unbounded call histories of the PasetoBuilder model (Builder.tla):      *)
(* an inductive invariant, discharged with Apalache                        *)
(*     Init => IndInv            (length 0)                                *)
(*     IndInv /\ Next => IndInv' (length 1, from IndInit)                  *)
(* and IndInv => DupIff /\ DupSticky /\ ExpDefault, i.e. C13 / C17 hold on *)
(* the model for every history, not only up to the bound MC_Builder uses.  *)
(***************************************************************************)
EXTENDS Builder

VARIABLE
  \* @type: { layer: Str, claims: Str -> Str, top: Set(Str), dup: Str, nonexp: Bool, footer: Str, assertion: Str, supplied: Str -> Int, expAfterAck: Bool, failed: Bool, nbuilt: Int };
  b

ConstInit == FixD4 = TRUE

Vals == {Absent, Dflt} \cup CallerVals

AnyOp ==
  {Op("set", k, v) : k \in BKeys, v \in {"v1", "v2", "v3"}}
    \cup {Op("ack", "", ""), Op("footer", "", "f1"), Op("assertion", "", "a1"), Op("build", "", "")}

Init == b = BInit("prelude")
Next == \E o \in AnyOp : b' = Apply(b, o)

StateSpace ==
  [layer : {"prelude"},
   claims : [BKeys -> Vals],
   top : SUBSET BKeys,
   dup : BKeys \cup {NoDup},
   nonexp : BOOLEAN,
   footer : {"none", "f1"},
   assertion : {"none", "a1"},
   supplied : [BKeys -> Nat],
   expAfterAck : BOOLEAN,
   failed : BOOLEAN,
   nbuilt : Nat]

\* counters are unbounded naturals
TypeOK == b \in StateSpace

\* what links the code's bookkeeping (top, dup, claims) to what the caller did (supplied, ...)
Link ==
  /\ b.top = {k \in BKeys : b.supplied[k] >= 1} \cup (IF b.nonexp THEN {"exp"} ELSE {})
  /\ (b.dup # NoDup) <=> (\E k \in BKeys : b.supplied[k] >= 2) \/ b.expAfterAck
  /\ b.dup # NoDup => b.dup \in DupNameable(b)
  /\ b.expAfterAck => (b.nonexp /\ b.supplied["exp"] >= 1)
  /\ b.failed => b.dup # NoDup
  /\ \A k \in BKeys :
       IF b.supplied[k] >= 1 THEN (b.claims[k] \in CallerVals \/ (k = "exp" /\ b.nonexp))
       ELSE (IF k \in {"iat", "nbf"} THEN b.claims[k] = Dflt
             ELSE IF k = "exp" THEN b.claims[k] \in {Dflt, Absent} /\ (b.claims[k] = Absent => b.nonexp)
             ELSE b.claims[k] = Absent)

IndInv == TypeOK /\ Link
IndInit == b \in StateSpace /\ Link

Props == DupIff(b) /\ DupSticky(b) /\ ExpDefault(b)

\* non-vacuity: IndInit is satisfiable and a step is possible (these "invariants" must be reported violated)
NoState == FALSE
NoBuildStep == b.nbuilt = 0
=============================================================================
