SPECIFICATION Spec
INVARIANTS
  Inv_EncDec
  Inv_DecEnc
  Inv_Size
CHECK_DEADLOCK FALSE
