------------------------------- MODULE MC_B64 -------------------------------
(* bounded check of B64.tla: every byte string of length <= 2 (and a sub-alphabet for 3), every
   letter string of length <= 3 (and a sub-alphabet for 4..5) *)
EXTENDS B64, TLC, FiniteSets
VARIABLES x

RECURSIVE SeqsUpTo(_, _)
SeqsUpTo(S, n) == IF n = 0 THEN {<<>>} ELSE SeqsUpTo(S, n - 1) \cup {Append(s, e) : s \in {t \in SeqsUpTo(S, n - 1) : Len(t) = n - 1}, e \in S}

Bytes2 == SeqsUpTo(0..255, 2)
Bytes4 == SeqsUpTo({0, 1, 15, 16, 63, 64, 127, 128, 254, 255}, 4)
Strs3 == SeqsUpTo(0..65, 2) \cup {<<a, b, c>> : a \in {0, 1, 63}, b \in 0..65, c \in 0..65}
Strs5 == SeqsUpTo({0, 1, 4, 16, 48, 63, Pad, Foreign}, 5)

Init == x = 0
Next == x = 0 /\ x' = 1
Spec == Init /\ [][Next]_x

\* every encoding is canonical and decodes back
Inv_EncDec == \A b \in Bytes2 \cup Bytes4 : Canonical(Enc(b)) /\ Dec(Enc(b)) = b
\* every canonical string is the encoding of what it decodes to: one text per byte string
Inv_DecEnc == \A s \in Strs3 \cup Strs5 : Canonical(s) => Enc(Dec(s)) = s
\* (Inv_DecEnc makes Dec injective on canonical strings: two canonical texts of the same bytes are equal)
Inv_Size == PrintT(<<"B64 universe", Cardinality(Bytes2 \cup Bytes4), Cardinality(Strs3 \cup Strs5)>>)
=============================================================================
