----------------------------- MODULE MC_Builder -----------------------------
(***************************************************************************)
(* Every call history of a builder up to MaxLen calls over the alphabet    *)
(* selected by Family:                                                     *)
(*   "c17": PasetoBuilder, set_claim for each of 9 keys, acknowledge,      *)
(*          set_footer, build (12 actions, DESIGN.md C17)                  *)
(*   "c13": PasetoBuilder, set_claim(exp|iat|nbf|custom), acknowledge,     *)
(*          set_footer, set_implicit_assertion, build (8 actions, C13)     *)
(*   "c14": GenericBuilder, set_claim / remove_claim over 3 keys x 2       *)
(*          values, build (10 actions, C14)                                *)
(*   "c05b" / "c05g": PasetoBuilder / GenericBuilder, set_footer and       *)
(*          set_implicit_assertion with two values each and the empty      *)
(*          string, a custom claim, build (C05 / C06 at the builder layers)*)
(* In every reachable builder state the properties of Builder.tla are      *)
(* checked; every history that ends in build is printed for replay.        *)
(***************************************************************************)
EXTENDS Builder, TLC, Json

CONSTANTS MaxLen, Family, Emit

VARIABLES b, hist
vars == <<b, hist>>

Layer == IF Family \in {"c14", "c05g"} THEN "generic" ELSE "prelude"

\* the value a caller passes the n-th time it supplies a key
NthVal(n) == CASE n = 0 -> "v1" [] n = 1 -> "v2" [] OTHER -> "v3"

SetOps(keys) == {Op("set", k, NthVal(b.supplied[k])) : k \in keys}

Alphabet ==
  CASE Family = "c17" -> SetOps(BKeys) \cup {Op("ack", "", ""), Op("footer", "", "f1"), Op("build", "", "")}
    [] Family = "c13" -> SetOps({"exp", "iat", "nbf", "ca"})
                           \cup {Op("ack", "", ""), Op("footer", "", "f1"), Op("assertion", "", "a1"), Op("build", "", "")}
    [] Family = "c13t" -> SetOps({"nbf"}) \cup {Op("tick", "", ""), Op("ack", "", ""), Op("build", "", "")}
    [] Family \in {"c05b", "c05g"} ->
                         {Op("footer", "", f) : f \in {"f1", "f2", "empty"}}
                           \cup {Op("assertion", "", a) : a \in {"a1", "a2", "empty"}}
                           \cup {Op("build", "", "")}
    [] Family = "c14" -> {Op("set", k, v) : k \in {"iss", "ca", "cb"}, v \in {"v1", "v2"}}
                           \cup {Op("remove", k, "") : k \in {"iss", "ca", "cb"}}
                           \cup {Op("extend", "cb", "v1"), Op("extendw", "cb", "v1"), Op("extend2", "", "v2")}
                           \cup {Op("build", "", "")}

Init == b = BInit(Layer) /\ hist = <<>>

Do(o) ==
  /\ Len(hist) < MaxLen
  /\ b' = Apply(b, o)
  /\ hist' = Append(hist, o)

Next == \E o \in Alphabet : Do(o)
Spec == Init /\ [][Next]_vars

Inv_DupIff     == DupIff(b)         \* C17
Inv_DupSticky  == DupSticky(b)      \* C17
Inv_ExpDefault == ExpDefault(b)     \* C13
\* C10 at model level: every successful build draws a new nonce (the counter only grows)
Inv_Counter    == b.nbuilt <= Len(hist)

EndsInBuild == Len(hist) > 0 /\ hist[Len(hist)].op = "build"

Inv_Emit == (Emit /\ EndsInBuild) => PrintT(<<"BEH", ToJson([layer |-> Layer, ops |-> hist])>>)
=============================================================================
