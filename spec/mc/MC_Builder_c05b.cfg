SPECIFICATION Spec
CONSTANTS
  FixD4 = TRUE
  MaxLen = 5
  Family = "c05b"
  Emit = TRUE
INVARIANTS
  Inv_DupIff
  Inv_DupSticky
  Inv_ExpDefault
  Inv_Counter
  Inv_Emit
CHECK_DEADLOCK FALSE
