SPECIFICATION Spec
CONSTANTS
  FixD4 = TRUE
  MaxLen = 6
  Family = "c05g"
  Emit = TRUE
INVARIANTS
  Inv_DupIff
  Inv_DupSticky
  Inv_ExpDefault
  Inv_Counter
  Inv_Emit
CHECK_DEADLOCK FALSE
