SPECIFICATION Spec
CONSTANTS
  FixD4 = FALSE
  MaxLen = 3
  Family = "c13"
  Emit = FALSE
INVARIANTS
  Inv_ExpDefault
CHECK_DEADLOCK FALSE
