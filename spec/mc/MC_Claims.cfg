SPECIFICATION Spec
CONSTANTS
  MaxKeyLen = 4
INVARIANTS
  Inv_Exactly
  Inv_Count
  Inv_Emit
CHECK_DEADLOCK FALSE
