------------------------------ MODULE MC_Claims ------------------------------
(***************************************************************************)
(* C18: every string of length 1..MaxKeyLen over the 13 letters that occur *)
(* in the registered claim names, with the result CustomClaim::try_from    *)
(* must give; the decorated variants of the seven names; the time-string   *)
(* classes.                                                                *)
(***************************************************************************)
EXTENDS Claims, TLC, Json, FiniteSets

CONSTANTS MaxKeyLen

VARIABLES x

Letters == <<"a", "b", "d", "e", "f", "i", "j", "n", "p", "s", "t", "u", "x">>
NL == Len(Letters)

RECURSIVE StrOf(_, _)
\* the string of length n whose letters are the base-13 digits of c
StrOf(n, c) == IF n = 0 THEN "" ELSE StrOf(n - 1, c \div NL) \o Letters[(c % NL) + 1]

RECURSIVE Pow(_, _)
Pow(b, e) == IF e = 0 THEN 1 ELSE b * Pow(b, e - 1)

KeysOfLen(n) == {StrOf(n, c) : c \in 0..(Pow(NL, n) - 1)}
AllKeys == UNION {KeysOfLen(n) : n \in 1..MaxKeyLen}

Init == x = 0
Next == x = 0 /\ x' = 1
Spec == Init /\ [][Next]_x

\* exactly the seven names are refused in the enumerated space
Inv_Exactly == {k \in AllKeys : CustomClaimResult(k) = "reserved"} = ReservedKeys
Inv_Count == MaxKeyLen >= 3 => Cardinality(AllKeys) = Pow(NL, 1) + Pow(NL, 2) + Pow(NL, 3) + (IF MaxKeyLen >= 4 THEN Pow(NL, 4) ELSE 0)

Inv_Emit ==
  (x = 0) =>
    /\ PrintT(<<"KEYS", ToJson([k \in AllKeys |-> CustomClaimResult(k)])>>)
    /\ PrintT(<<"DECO", ToJson({[base |-> b, deco |-> d, exp |-> "ok"] : b \in ReservedKeys, d \in Decorations})>>)
    /\ PrintT(<<"TIME", ToJson({[class |-> c, exp |-> TimeCtorResult(c)] : c \in TimeClasses})>>)
    /\ PrintT(<<"TYPED", ToJson({[ctor |-> c, key |-> TypedKey(c)] : c \in {"IssuerClaim", "SubjectClaim", "AudienceClaim", "TokenIdentifierClaim", "ExpirationClaim", "NotBeforeClaim", "IssuedAtClaim"}})>>)
=============================================================================
