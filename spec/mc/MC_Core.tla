------------------------------ MODULE MC_Core ------------------------------
(***************************************************************************)
(* Bounded exhaustive exploration of the life of a token:                  *)
(*   Mint (one of every protocol x footer x assertion) -> up to MaxEdits   *)
(*   adversary edits; in every reachable state every property of Core is   *)
(*   checked for every presentation (8 protocols x 2 keys x 4 footers x    *)
(*   4 assertions).  Each reachable state is also printed as one replay    *)
(*   case for the harness.                                                 *)
(***************************************************************************)
EXTENDS Core, TLC, Json

CONSTANTS MaxEdits, Emit

VARIABLES live, o, w, edits

vars == <<live, o, w, edits>>

NoOrigin == Origin(<<0, "none">>, "k1", "s1", "m1", "none", "none")
NoWire == [hdr |-> BadHdr, fields |-> <<>>, pform |-> "canon", nseg |-> 0, fseg |-> NoFooterSeg]

Init == live = FALSE /\ o = NoOrigin /\ w = NoWire /\ edits = <<>>

\* one representative per symmetry class: key k1, seed s1, message m1;
\* f2 / a2 / k2 / m2 / s2 appear in presentations and splices
MintOrigins ==
  {Origin(pr, "k1", "s1", "m1", f, a) :
     pr \in Protocols, f \in {"none", "empty", "f1"}, a \in {"none", "empty", "a1"}}

Mint(org) ==
  /\ ~live
  /\ org.a \in (IF HasAssertion(org.pr[1]) THEN {"none", "empty", "a1"} ELSE {"none"})
  /\ live' = TRUE /\ o' = org /\ w' = MintWire(org) /\ edits' = <<>>

Edit(e) ==
  /\ live
  /\ Len(edits) < MaxEdits
  /\ LET w2 == ApplyEdit(o, w, e) IN
     /\ w2 # w
     \* splicing may assemble exactly the other authentic token: that is not an alteration
     /\ ~\E var \in SpliceVariants :
            /\ MintWire(OtherOrigin(o, var)) # MintWire(o)
            /\ NormW(w2) = NormW(MintWire(OtherOrigin(o, var)))
     /\ w' = w2
  /\ edits' = Append(edits, e)
  /\ UNCHANGED <<live, o>>

Next == (\E org \in MintOrigins : Mint(org)) \/ (\E e \in EditAlphabet : Edit(e))

Spec == Init /\ [][Next]_vars

(***************************************************************************)
(* Invariants (one per listed property, see Core.tla).  The registered     *)
(* configurations check Inv_All, which evaluates every presentation once   *)
(* per state; the separate invariants name the violated property in the    *)
(* legacy (pinned-commit) configurations of bin/selftest.                  *)
(***************************************************************************)
Inv_RoundTrip   == live => RoundTrip(o, w, Results(w))       \* C01 C02
Inv_Integrity   == live => Integrity(o, w, Results(w))       \* C03
Inv_KeyBound    == live => KeyBound(o, Results(w))           \* C04
Inv_FooterBound == live => FooterBound(o, Results(w))        \* C05
Inv_AssertBound == live => AssertBound(o, Results(w))        \* C06
Inv_ProtoBound  == live => ProtoBound(o, Results(w))         \* C07
Inv_AcceptIff   == live => AcceptIff(o, w, Results(w))       \* C04-C07 converse
Inv_FooterSeg   == live => FooterSeg(o)                      \* C05 C08
Inv_Hidden      == live => Hidden(o)                         \* C06
Inv_NoPanic     == live => NoPanic(Results(w))               \* C09
Inv_Prediction  == live => PredictionSound(o, w, Results(w))

(***************************************************************************)
(* Replay cases.  For unaltered tokens every presentation is emitted (the  *)
(* full accept-iff matrix); for altered tokens the presentations of the    *)
(* original protocol and of the protocol named by the (relabelled) header. *)
(***************************************************************************)
PStr(pr) == IF pr = BadHdr THEN "bad" ELSE VStr(pr[1]) \o "." \o pr[2]

CaseRec(R) ==
  LET mw  == MintWire(o)
      un  == w = mw
      tol == NormW(w) = NormW(mw)
      EmitPres == IF un THEN Pres ELSE {p \in Pres : p.pr = o.pr \/ p.pr = w.hdr}
  IN
  [mint   |-> [pr |-> PStr(o.pr), k |-> o.k, s |-> o.s, m |-> o.m, f |-> o.f, a |-> o.a],
   layout |-> [i \in 1..Len(mw.fields) |->
                 [name |-> mw.fields[i].name,
                  len  |-> IF mw.fields[i].name \in {"body", "msg"} THEN 0 - 1 ELSE TLen(mw.fields[i].t)]],
   edits  |-> [i \in 1..Len(edits) |-> [k |-> edits[i].k, a |-> edits[i].a, b |-> edits[i].b, pr |-> PStr(edits[i].pr)]],
   unaltered |-> un,
   tolerated |-> tol,
   pres   |-> {[pr |-> PStr(p.pr), k |-> p.k, f |-> p.f, a |-> p.a,
                exp |-> ExpectOf(un, tol, o, p), why |-> R[p].why] : p \in EmitPres}]

Inv_Emit == (live /\ Emit) => PrintT(<<"CASE", ToJson(CaseRec(Results(w)))>>)

Inv_All ==
  live =>
    LET R == Results(w) IN
    /\ RoundTrip(o, w, R)
    /\ Integrity(o, w, R)
    /\ KeyBound(o, R) /\ FooterBound(o, R) /\ AssertBound(o, R) /\ ProtoBound(o, R)
    /\ AcceptIff(o, w, R)
    /\ FooterSeg(o)
    /\ Hidden(o)
    /\ NoPanic(R)
    /\ PredictionSound(o, w, R)
    /\ (Emit => PrintT(<<"CASE", ToJson(CaseRec(R))>>))
=============================================================================
