----------------------------- MODULE MC_CoreObj -----------------------------
(* every call history of one Paseto builder object up to MaxLen calls; histories ending in a mint are printed *)
EXTENDS CoreObj, TLC, Json
CONSTANTS MaxLen, Emit
VARIABLES c, hist
vars == <<c, hist>>

Alphabet == {COp("payload", m, "", "") : m \in {"m1", "m2"}}
              \cup {COp("footer", f, "", "") : f \in {"f1", "empty"}}
              \cup {COp("assertion", a, "", "") : a \in {"a1", "empty"}}
              \cup {COp("mint", "", "k1", s) : s \in {"s1", "s2"}}
              \cup {COp("clone", "", "", "")}

Init == c = CInit /\ hist = <<>>
Do(o) == Len(hist) < MaxLen /\ c' = CApply(c, o) /\ hist' = Append(hist, o)
Next == \E o \in Alphabet : Do(o)
Spec == Init /\ [][Next]_vars

\* minting leaves the object unchanged, whatever was minted before
Inv_MintPure == [][\A o \in Alphabet : (o.op = "mint" /\ Do(o)) => c' = c]_vars
\* the model's own token is accepted exactly under the values set on the object (AcceptIff of Core)
Pr == <<4, "local">>
Inv_Reads ==
  (Len(hist) > 0 /\ hist[Len(hist)].op = "mint") =>
     LET o == hist[Len(hist)]  org == MintOrigin(Pr, c, o) IN
     \A p \in {q \in Pres : q.pr = Pr} : Allowed(Expect(org, MintWire(org), p), PresentP(MintWire(org), p), org)
Inv_Emit == (Emit /\ Len(hist) > 0 /\ hist[Len(hist)].op = "mint") => PrintT(<<"BEH", ToJson([ops |-> hist])>>)
=============================================================================
