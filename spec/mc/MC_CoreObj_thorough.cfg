SPECIFICATION Spec
CONSTANTS
  FixD2 = TRUE
  FixD5 = TRUE
  FixD6 = TRUE
  MaxLen = 5
  Emit = TRUE
INVARIANTS
  Inv_Reads
  Inv_Emit
PROPERTIES
  Inv_MintPure
CHECK_DEADLOCK FALSE
