SPECIFICATION Spec
CONSTANTS
  FixD2 = FALSE
  FixD5 = TRUE
  FixD6 = TRUE
  MaxEdits = 1
  Emit = FALSE
INVARIANTS
  Inv_NoPanic
CHECK_DEADLOCK FALSE
