SPECIFICATION Spec
CONSTANTS
  FixD2 = TRUE
  FixD5 = FALSE
  FixD6 = TRUE
  MaxEdits = 0
  Emit = FALSE
INVARIANTS
  Inv_FooterSeg
CHECK_DEADLOCK FALSE
