SPECIFICATION Spec
CONSTANTS
  FixD2 = TRUE
  FixD5 = TRUE
  FixD6 = FALSE
  MaxEdits = 1
  Emit = FALSE
INVARIANTS
  Inv_Integrity
CHECK_DEADLOCK FALSE
