SPECIFICATION Spec
CONSTANTS
  FixD2 = TRUE
  FixD5 = TRUE
  FixD6 = FALSE
  MaxEdits = 1
  Emit = FALSE
INVARIANTS
  Inv_Prediction
CHECK_DEADLOCK FALSE
