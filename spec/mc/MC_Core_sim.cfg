SPECIFICATION Spec
CONSTANTS
  FixD2 = TRUE
  FixD5 = TRUE
  FixD6 = TRUE
  MaxEdits = 4
  Emit = TRUE
INVARIANTS
  Inv_All
CHECK_DEADLOCK FALSE
