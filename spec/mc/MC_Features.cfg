SPECIFICATION Spec
INVARIANTS
  Inv_Monotone
  Inv_Layers
  Inv_Emit
CHECK_DEADLOCK FALSE
