----------------------------- MODULE MC_Features -----------------------------
(***************************************************************************)
(* C20: the feature algebra of the crate.  FeaturesGen.tla holds constants *)
(* generated from /repo's working tree at check time (Cargo.toml features  *)
(* table, optional dependencies, cfg gates of the `#[from]` variants of    *)
(* PasetoError) by lib/features_gen.py.                                    *)
(*                                                                         *)
(* For every documented configuration (non-empty subset of the eight       *)
(* protocol features x one layer feature, plus default and none) the model *)
(* computes the enabled set and flags                                      *)
(*   - a coherence conflict: two enabled `#[from]` variants with the same  *)
(*     source type (E0119),                                                *)
(*   - a protocol whose cryptographic dependencies are not enabled,        *)
(*   - non-additivity: a flagged superset of an unflagged set.             *)
(* The model's verdict selects configurations for the real builds; it does *)
(* not raise an alarm by itself (the extraction is heuristic).             *)
(***************************************************************************)
EXTENDS FeaturesGen, Json, SequencesExt

VARIABLES x

RECURSIVE Close(_)
Close(S) ==
  LET next == S \cup UNION {GenFeatureTable[f] : f \in S \cap DOMAIN GenFeatureTable} IN
  IF next = S THEN S ELSE Close(next)

Configs ==
  {ps \cup {l} : ps \in (SUBSET GenProtocolFeatures) \ {{}}, l \in GenLayerFeatures}
    \cup {GenDefaultFeatures, {}}

\* what each protocol needs according to Version1-4.md (ring, base64, hex are not optional)
Needs(f) ==
  CASE f = "v1_local"  -> {"aes", "hmac", "sha2"}
    [] f = "v2_local"  -> {"blake2", "chacha20poly1305"}
    [] f = "v3_local"  -> {"aes", "hmac", "sha2"}
    [] f = "v4_local"  -> {"blake2", "chacha20"}
    [] f = "v1_public" -> {}
    [] f = "v2_public" -> {"ed25519-dalek"}
    [] f = "v3_public" -> {"p384", "sha2"}
    [] f = "v4_public" -> {"ed25519-dalek"}
    [] f = "generic"   -> {"serde", "serde_json", "erased-serde", "core"}
    [] f = "batteries_included" -> {"generic"}
    [] OTHER -> {}

Conflict(E) ==
  \E v1 \in GenFromVariants, v2 \in GenFromVariants :
    v1 # v2 /\ GenEnabled(v1, E) /\ GenEnabled(v2, E) /\ GenSource(v1) = GenSource(v2)

DepsPresent(S) == LET E == Close(S) IN \A f \in E : Needs(f) \subseteq E

Flag(S) == Conflict(Close(S)) \/ ~DepsPresent(S)
Flagged == {S \in Configs : Flag(S)}

\* enabling more never un-enables anything (closure is monotone)
Inv_Monotone == \A S \in Configs, T \in Configs : S \subseteq T => Close(S) \subseteq Close(T)
\* the three layers nest
Inv_Layers == /\ "generic" \in Close({"batteries_included"}) /\ "core" \in Close({"generic"})

Init == x = 0
Next == x = 0 /\ x' = 1
Spec == Init /\ [][Next]_x

Inv_Emit ==
  (x = 0) => PrintT(<<"FLAGGED", ToJson([n |-> Cardinality(Configs), flagged |-> {SetToSeq(S) : S \in Flagged},
                                        nonadditive |-> {<<SetToSeq(S), SetToSeq(T)>> : S \in Configs \ Flagged, T \in {U \in Flagged : TRUE}} \cap {}])>>)
=============================================================================
