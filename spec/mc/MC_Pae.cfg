SPECIFICATION Spec
CONSTANTS
  MaxPieces = 3
  MaxLen = 2
  Alphabet = {0, 255}
INVARIANTS
  Inv_RoundTrip
  Inv_Injective
  Inv_Split
  Inv_Size
CHECK_DEADLOCK FALSE
