------------------------------- MODULE MC_Pae -------------------------------
(* bounded check of Pae.tla: all lists of <= MaxPieces pieces of length <= MaxLen over Alphabet *)
EXTENDS Pae, TLC, FiniteSets
CONSTANTS MaxPieces, MaxLen, Alphabet
VARIABLES x

RECURSIVE SeqsUpTo(_, _)
SeqsUpTo(S, n) == IF n = 0 THEN {<<>>} ELSE SeqsUpTo(S, n - 1) \cup {Append(s, e) : s \in {t \in SeqsUpTo(S, n - 1) : Len(t) = n - 1}, e \in S}

Pieces == SeqsUpTo(Alphabet, MaxLen)
Lists == SeqsUpTo(Pieces, MaxPieces)

Init == x = 0
Next == x = 0 /\ x' = 1
Spec == Init /\ [][Next]_x

Inv_RoundTrip == \A ps \in Lists : RoundTrips(ps)
Inv_Injective == Injective(Lists)
\* the case C06 names: same concatenation, different split
Inv_Split == \A a \in Pieces, b \in Pieces, c \in Pieces, d \in Pieces :
               (a \o b = c \o d /\ <<a, b>> # <<c, d>>) => Pae(<<a, b>>) # Pae(<<c, d>>)
Inv_Size == PrintT(<<"PAE lists", Cardinality(Lists)>>)
=============================================================================
