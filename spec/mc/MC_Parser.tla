------------------------------ MODULE MC_Parser ------------------------------
(***************************************************************************)
(* Every configuration history of a parser (up to MaxCfg calls) followed   *)
(* by every sequence of up to MaxParse parses of tokens from a table, with *)
(* either key.  Families:                                                  *)
(*   "c15": GenericParser, check_claim over 2 keys x 2 values; tokens with *)
(*          every combination of absent/null/v1/v2 for the two keys        *)
(*   "c16": GenericParser, validate_claim / extend_validation_claims /     *)
(*          check_claim / set_footer; tokens authentic, tampered, with and *)
(*          without footer; both keys                                      *)
(*   "c11": PasetoParser::default(); tokens with every (exp, nbf) class    *)
(*   "c05": set_footer / set_implicit_assertion histories incl. resetting  *)
(*          to the empty string and reconfiguring between parses; tokens   *)
(*          minted with every (footer, assertion) pair (C05 / C06 at the   *)
(*          parser layers; "c05p" the same on PasetoParser)                *)
(* The properties of Parser.tla are checked for every parse; every history *)
(* ending in a parse is printed for replay.                                *)
(***************************************************************************)
EXTENDS Parser, TLC, Json, SequencesExt

CONSTANTS MaxCfg, MaxParse, Family, Emit, Reconfigure, Small

VARIABLES ps, hist, ncfg, nparse
vars == <<ps, hist, ncfg, nparse>>

\* families c15p / c16p: the same histories on PasetoParser (which delegates to a GenericParser and
\* always carries the default exp / nbf validators)
Base == IF Family \in {"c15p", "c15pc"} THEN "c15" ELSE IF Family = "c16p" THEN "c16" ELSE IF Family = "c05p" THEN "c05" ELSE Family
Layer == IF Family \in {"c11", "c11t", "c15p", "c15pc", "c16p", "c05p"} THEN "prelude" ELSE "generic"
K2 == IF Family = "c15p" THEN "iat" ELSE "ca"
Pr == <<4, "local">>

NoClaims == [k \in PKeys |-> "absent"]
Org(f) == Origin(Pr, "k1", "s1", "m1", f, "none")
OrgFA(f, a) == Origin(Pr, "k1", "s1", "m1", f, a)
\* footers / assertions of family c05 (Small: one value each)
C05F == IF Small THEN {"f1"} ELSE {"f1", "f2"}
C05A == IF Small THEN {"a1"} ELSE {"a1", "a2"}

TokTable ==
  CASE Base = "c15" ->
         LET S == {<<a, b>> : a \in GenericVals, b \in (IF Small THEN GenericVals \ {"null"} ELSE GenericVals)} IN
         LET seq == SetToSeq(S) IN
         \* the second key is a custom claim on the generic parser and the registered iat on PasetoParser
         [i \in 1..Len(seq) |-> Tok(Org("none"), NoEdit, TRUE, [NoClaims EXCEPT !["iss"] = seq[i][1], ![K2] = seq[i][2]])]
    [] Base = "c16" ->
         \* Small: one authentic token (+ the tampered and the non-JSON one) for the re-parse histories c16r
         LET S == {<<a, b, f>> : a \in (IF Small THEN {"v1"} ELSE {"absent", "v1", "v2"}),
                                 b \in (IF Small THEN {"absent"} ELSE {"absent", "v1", "v2"}),
                                 f \in (IF Small THEN {"none"} ELSE {"none", "f1"})} IN
         LET seq == SetToSeq(S) IN
         [i \in 1..(Len(seq) + (IF Small THEN 3 ELSE 2)) |->
            IF i <= Len(seq)
            THEN Tok(Org(seq[i][3]), NoEdit, TRUE, [NoClaims EXCEPT !["ca"] = seq[i][1], !["cb"] = seq[i][2]])
            ELSE IF i = Len(seq) + 1
            THEN Tok(Org("none"), E("flip", "tag", ""), TRUE, [NoClaims EXCEPT !["ca"] = "v1", !["cb"] = "v1"])
            ELSE IF i = Len(seq) + 2
            THEN Tok(Org("none"), NoEdit, FALSE, NoClaims)
            \* the authentic token of the table with the header of another protocol of the same purpose
            ELSE Tok(Org("none"), ERelabel(RelabelTarget(Pr)), TRUE, [NoClaims EXCEPT !["ca"] = "v1"])]
    [] Base = "c05" ->
         LET S == {<<f, a>> : f \in {"none"} \cup C05F, a \in {"none"} \cup C05A} IN
         LET seq == SetToSeq(S) IN
         [i \in 1..Len(seq) |-> Tok(OrgFA(seq[i][1], seq[i][2]), NoEdit, TRUE, NoClaims)]
    [] Family = "c11t" ->
         \* time passes: tokens whose exp / nbf lies a few seconds after the start of the history
         <<Tok(Org("none"), NoEdit, TRUE, [NoClaims EXCEPT !["exp"] = SoonVal]),
           Tok(Org("none"), NoEdit, TRUE, [NoClaims EXCEPT !["nbf"] = SoonVal]),
           Tok(Org("none"), NoEdit, TRUE, [NoClaims EXCEPT !["exp"] = SoonVal, !["nbf"] = SoonVal]),
           Tok(Org("none"), NoEdit, TRUE, [NoClaims EXCEPT !["exp"] = "future", !["nbf"] = SoonVal]),
           Tok(Org("none"), NoEdit, TRUE, [NoClaims EXCEPT !["exp"] = SoonVal, !["nbf"] = "past"])>>
    [] Base = "c11" ->
         LET S == {<<a, b>> : a \in TimeVals, b \in TimeVals} IN
         LET seq == SetToSeq(S) IN
         [i \in 1..Len(seq) |-> Tok(Org("none"), NoEdit, TRUE, [NoClaims EXCEPT !["exp"] = seq[i][1], !["nbf"] = seq[i][2]])]

Op4(op, k, v, t) == [op |-> op, k |-> k, v |-> v, t |-> t]

\* PasetoParser has no extend_* methods
CfgOps ==
  CASE Family = "c11t" -> {Op4("tick", "", "", 0)}
    [] Family = "c15p" -> {Op4("check", k, v, 0) : k \in {"iss", "iat"}, v \in {"v1", "v2"}}
    \* PasetoParser::check_claim with a custom claim (c15p has the registered iss / iat)
    [] Family = "c15pc" -> {Op4("check", k, v, 0) : k \in {"iss", "ca"}, v \in {"v1", "v2"}}
    [] Family = "c16p" -> {Op4("validate", k, kind, 0) : k \in {"ca", "cb"}, kind \in {"accept", "reject", "magic"}}
                           \cup {Op4("check", k, "v1", 0) : k \in {"ca", "cb"}}
                           \cup {Op4("footer", "", "f1", 0)}
    [] Family = "c15" -> {Op4("check", k, v, 0) : k \in {"iss", "ca"}, v \in {"v1", "v2"}}
                           \cup {Op4("extcheck", "ca", "v1", 0)}
    [] Family = "c16" -> {Op4("validate", k, kind, 0) : k \in {"ca", "cb"}, kind \in {"accept", "reject", "magic"}}
                           \cup {Op4("extvalid", k, kind, 0) : k \in {"ca", "cb"}, kind \in {"accept", "reject", "magic"}}
                           \cup {Op4("check", k, "v1", 0) : k \in {"ca", "cb"}}
                           \cup {Op4("footer", "", "f1", 0)}
    [] Base = "c05" -> {Op4("footer", "", f, 0) : f \in C05F \cup {"empty"}}
                         \cup {Op4("assertion", "", a, 0) : a \in C05A \cup {"empty"}}
    [] Family = "c11" -> {Op4("check", "exp", "v1", 0), Op4("check", "nbf", "v1", 0), Op4("check", "iss", "v1", 0)}

ParseOps ==
  {Op4("parse", key, "", t) : key \in (IF Base \in {"c11", "c11t", "c05"} THEN {"k1"} ELSE {"k1", "k2"}), t \in 1..Len(TokTable)}

Init == ps = PInit(Layer, Pr) /\ hist = <<>> /\ ncfg = 0 /\ nparse = 0

\* configuration calls may also come after parses (a parser object is reconfigured and used again)
Cfg(o) ==
  /\ ncfg < MaxCfg /\ (Reconfigure \/ nparse = 0)
  /\ ps' = PApply(ps, POp(o.op, o.k, o.v))
  /\ hist' = Append(hist, o)
  /\ ncfg' = ncfg + 1 /\ UNCHANGED nparse

Parse(o) ==
  /\ nparse < MaxParse
  /\ ps' = PApply(ps, POp(o.op, o.k, o.v))       \* = ps
  /\ hist' = Append(hist, o)
  /\ nparse' = nparse + 1 /\ UNCHANGED ncfg

Next == (\E o \in CfgOps : Cfg(o)) \/ (\E o \in ParseOps : Parse(o))
Spec == Init /\ [][Next]_vars

LastOp == hist[Len(hist)]
AtParse == Len(hist) > 0 /\ LastOp.op = "parse"

Inv_ExpectIff  == AtParse => ExpectIff(ps, TokTable[LastOp.t], LastOp.k)            \* C15
Inv_Validators == AtParse => ValidatorDiscipline(ps, TokTable[LastOp.t], LastOp.k)  \* C16
Inv_ExpRejects == AtParse => ExpRejects(ps, TokTable[LastOp.t], LastOp.k)           \* C11
Inv_NbfRejects == AtParse => NbfRejects(ps, TokTable[LastOp.t], LastOp.k)           \* C12
Inv_FootAssert == AtParse => FooterAssertionIff(ps, TokTable[LastOp.t], LastOp.k)   \* C05 / C06
Inv_Allowed    == AtParse => ModelAllowed(ps, TokTable[LastOp.t], LastOp.k)
\* C15: parsing never changes the parser
Inv_ParsePure  == [][\A o \in ParseOps : Parse(o) => ps' = ps]_vars

TokJson(t) ==
  [f |-> t.o.f, a |-> t.o.a, k |-> t.o.k, edit |-> t.e.k, json |-> t.json,
   claims |-> LET ks == SetToSeq({k \in PKeys : t.claims[k] # "absent"}) IN
              [i \in 1..Len(ks) |-> <<ks[i], t.claims[ks[i]]>>]]

\* the token table is printed once; behaviours refer to tokens by index
Inv_EmitToks ==
  (Emit /\ hist = <<>>) => PrintT(<<"TOKS", ToJson([i \in 1..Len(TokTable) |-> TokJson(TokTable[i])])>>)

Inv_Emit ==
  (Emit /\ AtParse) => PrintT(<<"BEH", ToJson([layer |-> Layer, ops |-> hist])>>)
=============================================================================
