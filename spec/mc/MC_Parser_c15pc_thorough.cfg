SPECIFICATION Spec
CONSTANTS
  FixD2 = TRUE
  FixD5 = TRUE
  FixD6 = TRUE
  FixD3 = TRUE
  FixD7 = TRUE
  MaxCfg = 2
  MaxParse = 2
  Family = "c15pc"
  Reconfigure = FALSE
  Small = TRUE
  Emit = TRUE
INVARIANTS
  Inv_ExpectIff
  Inv_Validators
  Inv_ExpRejects
  Inv_NbfRejects
  Inv_Allowed
  Inv_Emit
  Inv_EmitToks
PROPERTIES
  Inv_ParsePure
CHECK_DEADLOCK FALSE
