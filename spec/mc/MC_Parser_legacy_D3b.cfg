SPECIFICATION Spec
CONSTANTS
  FixD2 = TRUE
  FixD5 = TRUE
  FixD6 = TRUE
  FixD3 = FALSE
  FixD7 = TRUE
  MaxCfg = 0
  MaxParse = 1
  Family = "c11"
  Reconfigure = FALSE
  Small = FALSE
  Emit = FALSE
INVARIANTS
  Inv_NbfRejects
CHECK_DEADLOCK FALSE
