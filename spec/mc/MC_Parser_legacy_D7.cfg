SPECIFICATION Spec
CONSTANTS
  FixD2 = TRUE
  FixD5 = TRUE
  FixD6 = TRUE
  FixD3 = TRUE
  FixD7 = FALSE
  MaxCfg = 1
  MaxParse = 1
  Family = "c16"
  Reconfigure = FALSE
  Small = FALSE
  Emit = FALSE
INVARIANTS
  Inv_Validators
CHECK_DEADLOCK FALSE
