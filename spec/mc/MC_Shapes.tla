------------------------------ MODULE MC_Shapes ------------------------------
(***************************************************************************)
(* C09: arbitrary token text.  A "shape" is a token described only by what *)
(* the parsing pipeline looks at: number of segments, header text, decoded *)
(* payload length 0..MaxLen (exhaustive), canonical or not, and whether a  *)
(* fourth segment equals the expected footer.  For every shape and every   *)
(* entry point the step-by-step model of Core.tla must return an error -   *)
(* never a panic, never Ok.  Also the key-from-hex constructor: every      *)
(* length 0..MaxHex for every key size.                                    *)
(***************************************************************************)
EXTENDS Core, TLC, Json

CONSTANTS MaxLen, MaxHex, Emit

VARIABLES shape
vars == <<shape>>

Hdrs == Protocols \cup {BadHdr}

ShapeWire(s) ==
  [hdr    |-> s.hdr,
   fields |-> IF s.len = 0 THEN <<>> ELSE <<Fld("junk", Junk(s.len))>>,
   pform  |-> s.form,
   nseg   |-> s.nseg,
   fseg   |-> IF s.foot = "match" THEN [form |-> "canon", t |-> FB("f1")]
              ELSE IF s.foot = "other" THEN [form |-> "canon", t |-> FB("f2")]
              ELSE NoFooterSeg]

Shapes ==
  [hdr : Hdrs, nseg : 0..6, len : 0..MaxLen, form : {"canon", "noncanon"}, foot : {"none", "match", "other"}]

NoShape == [hdr |-> BadHdr, nseg |-> 0, len |-> 0, form |-> "none", foot |-> "none"]

Init == shape = NoShape
Next == shape = NoShape /\ \E s \in Shapes : (s.foot # "none" => s.nseg >= 4) /\ shape' = s
Spec == Init /\ [][Next]_vars

\* every entry point: each protocol, with and without the matching expected footer
Entry == {p \in Pres : p.k = "k1" /\ p.f \in {"none", "f1"} /\ p.a = "none"}

Inv_NoPanicNoOk ==
  shape # NoShape =>
    \A p \in Entry : PresentP(ShapeWire(shape), p).res = "pre"

PStr(pr) == IF pr = BadHdr THEN "bad" ELSE VStr(pr[1]) \o "." \o pr[2]

Inv_Emit ==
  (Emit /\ shape # NoShape) =>
     PrintT(<<"SHAPE", ToJson([h |-> PStr(shape.hdr), n |-> shape.nseg, l |-> shape.len, c |-> shape.form = "canon", f |-> shape.foot])>>)

(***************************************************************************)
(* Key::<N>::try_from(hex): Ok iff the string is 2N hexadecimal digits     *)
(***************************************************************************)
KeySizes == {24, 32, 48, 49, 64}
KeyFromHex(n, len, allhex) == IF allhex /\ len = 2 * n THEN "ok" ELSE "err"
HexCases == {[n |-> n, len |-> l, hex |-> h, exp |-> KeyFromHex(n, l, h)] : n \in KeySizes, l \in 0..MaxHex, h \in BOOLEAN}
Inv_EmitHex == (Emit /\ shape = NoShape) => PrintT(<<"HEX", ToJson(HexCases)>>)
=============================================================================
