SPECIFICATION Spec
CONSTANTS
  FixD2 = FALSE
  FixD5 = TRUE
  FixD6 = TRUE
  MaxLen = 100
  MaxHex = 4
  Emit = FALSE
INVARIANTS
  Inv_NoPanicNoOk
CHECK_DEADLOCK FALSE
