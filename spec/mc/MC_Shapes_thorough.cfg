SPECIFICATION Spec
CONSTANTS
  FixD2 = TRUE
  FixD5 = TRUE
  FixD6 = TRUE
  MaxLen = 1000
  MaxHex = 200
  Emit = TRUE
INVARIANTS
  Inv_NoPanicNoOk
  Inv_Emit
  Inv_EmitHex
CHECK_DEADLOCK FALSE
