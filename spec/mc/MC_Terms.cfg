SPECIFICATION Spec
CONSTANTS
  FixD2 = TRUE
  FixD5 = TRUE
  FixD6 = TRUE
INVARIANTS
  Inv_Binds
  Inv_Emit
CHECK_DEADLOCK FALSE
