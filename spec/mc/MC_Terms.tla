------------------------------ MODULE MC_Terms ------------------------------
(***************************************************************************)
(* C08: prints, for every protocol, the term tree of the token that        *)
(* Version1-4.md + Common.md prescribe (spec/Core.tla, MintFields), over   *)
(* the input atoms K (key bundle), S (nonce seed), M (message), F (footer) *)
(* and A (implicit assertion).  The harness' term evaluator interprets     *)
(* these trees with the real primitives; it contains no protocol knowledge *)
(* of its own.  For v1/v2 a second tree uses S directly as the wire nonce  *)
(* (tokens the specification defines but the library never builds).        *)
(***************************************************************************)
EXTENDS Core, TLC, Json

VARIABLES x
K == Atom("K", 32)
S == Atom("S", 32)
M == Atom("M", 20)
F == Atom("F", 5)
A == Atom("A", 7)

PStr(pr) == VStr(pr[1]) \o "." \o pr[2]

\* Common.md: PAE(pieces) = LE64(count) || LE64(len(p1)) || p1 || ... ; expanded here so that the
\* evaluator needs no notion of PAE (le64n: a constant, le64len: the length of the argument)
RECURSIVE ExpandPae(_)
ExpandPae(t) ==
  IF t.op = "pae" THEN
    LET n == Len(t.args)
        piece(i) == ExpandPae(t.args[i])
        parts == [j \in 1..(2 * n + 1) |->
                    IF j = 1 THEN T("le64n", "", n, 0, <<>>)
                    ELSE IF j % 2 = 0 THEN T("le64len", "", 0, 0, <<piece(j \div 2)>>)
                    ELSE piece((j - 1) \div 2)]
    IN T("concat", "", 0, 0, parts)
  ELSE [t EXCEPT !.args = [i \in 1..Len(t.args) |-> ExpandPae(t.args[i])]]

Entry(pr, variant) ==
  LET fs == IF variant = "derived" THEN MintFields(pr, K, S, M, F, A) ELSE MintFieldsN(pr, K, S, M, F, A) IN
  [pr |-> PStr(pr), variant |-> variant, header |-> HeaderStr(pr),
   fields |-> [i \in 1..Len(fs) |-> [name |-> fs[i].name, t |-> ExpandPae(fs[i].t)]]]

Entries ==
  {Entry(pr, "derived") : pr \in Protocols} \cup {Entry(<<v, "local">>, "rawnonce") : v \in {1, 2}}

Init == x = 0
Next == x = 0 /\ x' = 1
Spec == Init /\ [][Next]_x

\* design-level sanity: the terms of a protocol mention every input the protocol binds
RECURSIVE Atoms(_)
Atoms(t) == IF t.op = "atom" THEN {t.tag} ELSE UNION {Atoms(t.args[i]) : i \in 1..Len(t.args)}
Binds(pr) ==
  LET fs == MintFields(pr, K, S, M, F, A)
      all == UNION {Atoms(fs[i].t) : i \in 1..Len(fs)}
  IN /\ {"K", "M", "F"} \subseteq all
     /\ (HasAssertion(pr[1]) <=> "A" \in all)
     /\ (pr[2] = "local" <=> "S" \in all)
Inv_Binds == \A pr \in Protocols : Binds(pr)

Inv_Emit == (x = 0) => PrintT(<<"TERMS", ToJson(Entries)>>)
=============================================================================
