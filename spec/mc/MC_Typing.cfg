SPECIFICATION Spec
INVARIANTS
  Inv_Diagonal
  Inv_Emit
CHECK_DEADLOCK FALSE
