------------------------------ MODULE MC_Typing ------------------------------
EXTENDS Typing, TLC, Json, FiniteSets

VARIABLES x
PStr(pr) == VStr(pr[1]) \o "." \o pr[2]

Calls == {[kind |-> "call", op |-> op, x |-> PStr(X), y |-> PStr(Y), n |-> 0, ok |-> CallWellTyped(op, X, Y)] :
            op \in Ops, X \in Protocols, Y \in Protocols}
Asserts == {[kind |-> "assertion", op |-> ty, x |-> PStr(X), y |-> PStr(X), n |-> 0, ok |-> AssertionWellTyped(ty, X)] :
            ty \in AssertionTypes, X \in Protocols}
\* the nonce of a public protocol is not part of the property
Ctors == {[kind |-> "ctor", op |-> k, x |-> PStr(X), y |-> PStr(X), n |-> n, ok |-> CtorWellTyped(k, X, n)] :
            k \in KeyCtors, X \in Protocols, n \in KeySizes} \ {c \in
         {[kind |-> "ctor", op |-> "nonce", x |-> PStr(X), y |-> PStr(X), n |-> n, ok |-> CtorWellTyped("nonce", X, n)] :
            X \in Protocols, n \in KeySizes} : TRUE /\ \E X \in Protocols : X[2] = "public" /\ c.x = PStr(X)}

Programs == Calls \cup Asserts \cup Ctors

Init == x = 0
Next == x = 0 /\ x' = 1
Spec == Init /\ [][Next]_x

\* sanity of the table: per operation exactly the protocols of its purpose are accepted, with the same key protocol
Inv_Diagonal == \A op \in Ops : Cardinality({p \in Calls : p.op = op /\ p.ok}) = 4
Inv_Emit == (x = 0) => PrintT(<<"PROGS", ToJson(Programs)>>)
=============================================================================
