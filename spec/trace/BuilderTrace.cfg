SPECIFICATION Spec
CONSTANTS
  FixD4 = TRUE
INVARIANTS
  Inv_Report
CHECK_DEADLOCK FALSE
