---------------------------- MODULE BuilderTrace ----------------------------
(***************************************************************************)
(* Validation of builder call histories recorded from the real             *)
(* GenericBuilder / PasetoBuilder against Builder.tla.                     *)
(*                                                                         *)
(* Each line of the trace file (environment variable TRACE) is one         *)
(* behaviour of one builder object: the calls made, in order, and after    *)
(* every build what was observed - duplicate-claim error (and the key it   *)
(* names) or a token, whose payload the harness read back and projected    *)
(* to abstract values, and the identity of its nonce.  The behaviour is    *)
(* walked through the same Apply operator that MC_Builder explores; every  *)
(* observation must be allowed by the specification in the state reached.  *)
(***************************************************************************)
EXTENDS Builder, Json, IOUtils, TLC, SequencesExt

Rec == ndJsonDeserialize(IOEnv.TRACE)
Chunk == 250

VARIABLES l, bad
vars == <<l, bad>>

PayloadOf(obs) == {<<obs.payload[i][1], obs.payload[i][2]>> : i \in 1..Len(obs.payload)}

\* C10: a token of a local protocol carries a nonce never seen before in this run
\* (the harness numbers nonces by first occurrence; nseen = distinct nonces before this build)
FreshNonce(obs) == obs.nonce = 0 \/ obs.nonce = obs.nseen + 1

\* the token of a batteries-included builder under PasetoParser::default()
PreludeRead(b, obs) ==
  (obs.res = "ok" /\ b.layer = "prelude" /\ "pread" \in DOMAIN obs /\ obs.pread # "na") => obs.pread = DefaultParserVerdict(b)

\* C05 / C06: the harness reports which of the instance's footers / assertions authenticates the built
\* token ("na": the protocol has no implicit assertions); it must be the pair set last on the builder
FootBound(b, obs)   == (obs.res = "ok" /\ "bound" \in DOMAIN obs) => obs.bound.f = NormFA(b.footer)
AssertBound(b, obs) == (obs.res = "ok" /\ "bound" \in DOMAIN obs) => obs.bound.a \in {"na", NormFA(b.assertion)}

ObsAllowed(b, obs) ==
  /\ BuildAllowed(b, [res |-> obs.res, key |-> obs.key, payload |-> PayloadOf(obs)])
  /\ FootBound(b, obs) /\ AssertBound(b, obs)
  /\ obs.res = "ok" => FreshNonce(obs)
  /\ PreludeRead(b, obs)

\* the builder after a build whose observed outcome was obs (the observation, not the
\* model's own choice, decides between the two outcomes the latitude of C17 allows)
AfterBuildObs(b, obs) ==
  LET r == Ready(b) IN
  IF obs.res = "dup" THEN [r EXCEPT !.failed = TRUE] ELSE [r EXCEPT !.nbuilt = r.nbuilt + 1]

\* which listed properties an observation that is not allowed speaks about (every one it contradicts)
Why(b, obs) ==
  LET P == PayloadOf(obs)
      has(k) == \E p \in P : p[1] = k
      unread == obs.res = "unreadable"
      okres == obs.res = "ok"
  IN
  (IF unread THEN "C01 C02 " \o (IF b.layer = "prelude" THEN "C13 " ELSE "C14 ")
                  \o "built token is not accepted / not readable by the matching parser; " ELSE "")
  \o (IF unread /\ "alt" \in DOMAIN obs /\ obs.alt \in {"nofooter", "neither"} THEN "C05 it is accepted without the footer set on the builder; " ELSE "")
  \o (IF unread /\ "alt" \in DOMAIN obs /\ obs.alt \in {"noassertion", "neither"} THEN "C06 it is accepted without the assertion set on the builder; " ELSE "")
  \o (IF ~FootBound(b, obs) THEN "C05 C01 C02 the token is bound to footer " \o obs.bound.f \o ", the builder's last footer is " \o b.footer \o "; " ELSE "")
  \o (IF ~AssertBound(b, obs) THEN "C06 C01 C02 the token is bound to assertion " \o obs.bound.a \o ", the builder's last assertion is " \o b.assertion \o "; " ELSE "")
  \o (IF okres /\ ~FreshNonce(obs) THEN "C10 nonce repeated; " ELSE "")
  \o (IF okres /\ ~PreludeRead(b, obs) THEN "C01 C02 C11 C12 PasetoParser::default() on the built token: " \o obs.pread \o "; " ELSE "")
  \o (IF obs.res = "dup" /\ ~MayFail(b) THEN "C17 duplicate-claim error without a repeated key; " ELSE "")
  \o (IF obs.res = "dup" /\ MayFail(b) /\ obs.key \notin DupNameable(b) THEN "C17 error names a key that was not repeated; " ELSE "")
  \o (IF okres /\ MustFail(b) THEN "C17 token built although a key was supplied twice (or after a failed build); " ELSE "")
  \o (IF okres /\ b.layer = "prelude" /\ (has("exp") <=> b.nonexp) THEN "C13 exp present iff not acknowledged is violated; " ELSE "")
  \o (IF okres /\ b.layer = "prelude" /\ ~MustFail(b) /\ P # Payload(b) THEN "C13 C17 C01 C02 payload differs from defaults/caller values; " ELSE "")
  \o (IF okres /\ b.layer # "prelude" /\ P # Payload(b) THEN "C14 C01 C02 payload differs from the claims that were set; " ELSE "")
  \o (IF obs.res \notin {"ok", "dup", "unreadable"} THEN "C13 C14 C17 C09 build returned neither a token nor the duplicate-claim error: " \o obs.res \o "; " ELSE "")

\* first call whose observation the specification does not allow: [step, why], step = 0 if none
RECURSIVE Walk(_, _, _)
Walk(b, ops, i) ==
  IF i > Len(ops) THEN [step |-> 0, why |-> ""]
  ELSE LET o == ops[i] IN
       IF o.op = "build"
       THEN IF ObsAllowed(b, o.obs) THEN Walk(AfterBuildObs(b, o.obs), ops, i + 1)
            ELSE [step |-> i, why |-> Why(b, o.obs)]
       ELSE Walk(Apply(b, Op(o.op, o.k, o.v)), ops, i + 1)   \* incl. "tick": time passes, nothing changes

(***************************************************************************)
(* C10, statistical part: a "stats" record carries, for N nonces drawn by  *)
(* one builder family, how often each nonce bit was 1.  Every count must   *)
(* lie within  N/2 +- sqrt(113 N)/2  (Hoeffding: a fair bit leaves this    *)
(* range with probability < 2 exp(-56); union bound over all bits and      *)
(* streams of a run < 2^-64), and no bit may be constant.                  *)
(***************************************************************************)
RECURSIVE ISqrtUp(_, _)
\* least b >= lo with b*b >= x
ISqrtUp(x, lo) == IF lo * lo >= x THEN lo ELSE ISqrtUp(x, lo + 1)
Abs(x) == IF x < 0 THEN 0 - x ELSE x
StatsOK(r) ==
  LET B == ISqrtUp(113 * r.n, ISqrtUp(100 * r.n, 0) ) IN
  \A i \in 1..Len(r.counts) :
    /\ Abs(2 * r.counts[i] - r.n) <= B
    /\ 0 < r.counts[i] /\ r.counts[i] < r.n

Check(r) ==
  IF r.layer = "xthread"
  THEN (IF r.total = r.distinct THEN [step |-> 0, why |-> ""]
        ELSE [step |-> 1, why |-> "C10 the same nonce was drawn on two threads"])
  ELSE IF r.layer = "stats"
  THEN (IF StatsOK(r) THEN [step |-> 0, why |-> ""] ELSE [step |-> 1, why |-> "C10 nonce bit frequency outside the bound"])
  ELSE Walk(BInit(r.layer), r.ops, 1)

Init == l = 1 /\ bad = <<>>

MinOf(a, c) == IF a < c THEN a ELSE c

Next ==
  /\ l <= Len(Rec)
  /\ LET hi == MinOf(l + Chunk - 1, Len(Rec))
         R  == {[id |-> Rec[i].id, line |-> i, res |-> Check(Rec[i])] : i \in l..hi}
         B  == {x \in R : x.res.step # 0}
     IN /\ bad' = bad \o SetToSeq({[id |-> x.id, line |-> x.line, step |-> x.res.step, why |-> x.res.why] : x \in B})
        /\ l' = hi + 1

Spec == Init /\ [][Next]_vars

Done == l > Len(Rec)
Inv_Report == Done => PrintT(<<"RESULT", ToJson([n |-> Len(Rec), bad |-> bad])>>)
=============================================================================
