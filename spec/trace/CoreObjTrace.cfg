SPECIFICATION Spec
CONSTANTS
  FixD2 = TRUE
  FixD5 = TRUE
  FixD6 = TRUE
INVARIANTS
  Inv_Report
CHECK_DEADLOCK FALSE
