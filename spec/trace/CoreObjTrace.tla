---------------------------- MODULE CoreObjTrace ----------------------------
(* validation of recorded histories of one core builder object against CoreObj.tla:
   after every mint the token was read back under several presentations *)
EXTENDS CoreObj, Json, IOUtils, TLC, SequencesExt

Rec == ndJsonDeserialize(IOEnv.TRACE)
Chunk == 200
VARIABLES l, bad
vars == <<l, bad>>

ProtoOf(s) ==
  CASE s = "v1.local" -> <<1, "local">> [] s = "v1.public" -> <<1, "public">>
    [] s = "v2.local" -> <<2, "local">> [] s = "v2.public" -> <<2, "public">>
    [] s = "v3.local" -> <<3, "local">> [] s = "v3.public" -> <<3, "public">>
    [] s = "v4.local" -> <<4, "local">> [] s = "v4.public" -> <<4, "public">>

ReadsOK(pr, c, o) ==
  \A i \in 1..Len(o.reads) :
    LET r == o.reads[i]
        p == [pr |-> pr, k |-> r.k, f |-> r.f, a |-> r.a]
    IN ReadAllowed(pr, c, o, p, [res |-> r.res, msg |-> r.msg])

\* C08 / C05: Paseto::format_token - a fourth segment iff the footer set last is non-empty, and it is that footer
SegOK(c, o) == ("fseg" \in DOMAIN o) => o.fseg = (IF IsEmptyT(FB(c.f)) THEN "none" ELSE c.f)

\* C08 on a re-used object: the minted text is the specification's token (term evaluator: byte-identical for local
\* purposes, signature over the specification's signing input for public ones) for exactly the payload, footer and
\* assertion the object holds at the mint - "specof" lists the combinations the text is the specification's token of
SpecWant(pr, c) == c.m \o "|" \o (IF IsEmptyT(FB(c.f)) THEN "none" ELSE c.f) \o "|"
                        \o (IF HasAssertion(pr[1]) /\ ~IsEmptyT(AB(c.a)) THEN c.a ELSE "none")
SpecOK(pr, c, o) == ("specof" \in DOMAIN o) => o.specof = <<SpecWant(pr, c)>>

Why(pr, c, o) ==
  LET P(r) == [pr |-> pr, k |-> r.k, f |-> r.f, a |-> r.a]
      badr == {i \in 1..Len(o.reads) : ~ReadAllowed(pr, c, o, P(o.reads[i]), [res |-> o.reads[i].res, msg |-> o.reads[i].msg])}
      R == {o.reads[i] : i \in badr}
      matching(r) == FB(r.f) = FB(c.f) /\ r.k = o.k /\ (HasAssertion(pr[1]) => AB(r.a) = AB(c.a))
  IN IF o.res # "ok" THEN "C01 C02 mint failed"
     ELSE (IF ~SegOK(c, o) THEN "C08 C05 footer segment of the minted text is " \o o.fseg \o ", the footer set last is " \o c.f \o "; " ELSE "")
       \o (IF ~SpecOK(pr, c, o) THEN "C08 the minted text is not exactly the specification's token for the values the builder object holds (" \o SpecWant(pr, c) \o "); " ELSE "")
       \o (IF \E r \in R : r.res = "ok" /\ r.k # o.k THEN "C04 accepted under another key; " ELSE "")
       \o (IF \E r \in R : r.res = "ok" /\ FB(r.f) # FB(c.f) THEN "C05 accepted under another footer; " ELSE "")
       \o (IF \E r \in R : r.res = "ok" /\ HasAssertion(pr[1]) /\ AB(r.a) # AB(c.a) THEN "C06 accepted under another assertion; " ELSE "")
       \o (IF \E r \in R : r.res = "ok" /\ matching(r) THEN "C01 C02 returns another message; " ELSE "")
       \o (IF \E r \in R : r.res # "ok" /\ matching(r)
            THEN "C01 C02 C05 C06 the minted token is not accepted under the values set on the builder object; " ELSE "")
       \o (IF \E r \in R : r.res \notin {"ok", "pre"} THEN "C03 C09 unexpected outcome class; " ELSE "")

RECURSIVE Walk(_, _, _, _)
Walk(pr, c, ops, i) ==
  IF i > Len(ops) THEN [step |-> 0, why |-> ""]
  ELSE LET o == ops[i] IN
       IF o.op = "mint"
       THEN IF o.res = "ok" /\ ReadsOK(pr, c, o) /\ SegOK(c, o) /\ SpecOK(pr, c, o) THEN Walk(pr, c, ops, i + 1) ELSE [step |-> i, why |-> Why(pr, c, o)]
       ELSE Walk(pr, CApply(c, COp(o.op, o.v, "", "")), ops, i + 1)

Check(r) == Walk(ProtoOf(r.pr), CInit, r.ops, 1)

Init == l = 1 /\ bad = <<>>
MinOf(a, b) == IF a < b THEN a ELSE b
Next ==
  /\ l <= Len(Rec)
  /\ LET hi == MinOf(l + Chunk - 1, Len(Rec))
         R  == {[id |-> Rec[i].id, line |-> i, res |-> Check(Rec[i])] : i \in l..hi}
         B  == {x \in R : x.res.step # 0}
     IN /\ bad' = bad \o SetToSeq({[id |-> x.id, line |-> x.line, step |-> x.res.step, why |-> x.res.why] : x \in B})
        /\ l' = hi + 1
Spec == Init /\ [][Next]_vars
Done == l > Len(Rec)
Inv_Report == Done => PrintT(<<"RESULT", ToJson([n |-> Len(Rec), bad |-> bad])>>)
=============================================================================
