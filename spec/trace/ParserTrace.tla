----------------------------- MODULE ParserTrace -----------------------------
(***************************************************************************)
(* Validation of parser call histories recorded from the real              *)
(* GenericParser / PasetoParser against Parser.tla (and, through it,       *)
(* Core.tla).  One line of the trace = one parser object: its protocol and *)
(* layer, a table of the tokens presented to it (how each was minted and   *)
(* edited, the value class of every claim), the calls in order, and after  *)
(* every parse what was observed: outcome class, the claim the error       *)
(* names, and the validator calls logged by the harness' validators.       *)
(***************************************************************************)
EXTENDS Parser, Json, IOUtils, TLC, SequencesExt

Rec == ndJsonDeserialize(IOEnv.TRACE)
Chunk == 100

VARIABLES l, bad
vars == <<l, bad>>

ProtoOf(s) ==
  CASE s = "v1.local" -> <<1, "local">> [] s = "v1.public" -> <<1, "public">>
    [] s = "v2.local" -> <<2, "local">> [] s = "v2.public" -> <<2, "public">>
    [] s = "v3.local" -> <<3, "local">> [] s = "v3.public" -> <<3, "public">>
    [] s = "v4.local" -> <<4, "local">> [] s = "v4.public" -> <<4, "public">>

ClaimsOf(j) ==
  [k \in PKeys |->
     IF \E i \in 1..Len(j.claims) : j.claims[i][1] = k
     THEN j.claims[CHOOSE i \in 1..Len(j.claims) : j.claims[i][1] = k][2]
     ELSE "absent"]

TokOf(pr, j) ==
  Tok(Origin(pr, j.k, "s1", "m1", j.f, j.a),
      IF j.edit = "none" THEN NoEdit ELSE IF j.edit = "relabel" THEN ERelabel(RelabelTarget(pr)) ELSE E(j.edit, IF pr[2] = "local" THEN (IF pr[1] = 2 THEN "body" ELSE "tag") ELSE "sig", ""),
      j.json, ClaimsOf(j))

\* which listed properties a rejected observation speaks about
Why(ps, t, key, obs) ==
  LET core == CoreOutcome(ps, t, key)
      should == ClaimsAccepted(ps, t)
      kindsOf(S) == {ps.valid[k] : k \in S}
      failing == {k \in Phase1(ps) \cup Phase2(ps) : ~Passes(ps, t, k)}
      tag(S) == (IF "expdflt" \in kindsOf(S) THEN "C11 " ELSE "")
                 \o (IF "nbfdflt" \in kindsOf(S) THEN "C12 " ELSE "")
                 \o (IF kindsOf(S) \cap {"accept", "reject", "magic"} # {} THEN "C16 " ELSE "")
                 \o (IF \E k \in S : ~HasV(ps, k) THEN "C15 " ELSE "")
      \* what distinguishes the presentation from the token's origin
      mism == (IF t.e # NoEdit THEN "C03 " ELSE "") \o (IF t.e.k = "relabel" THEN "C07 " ELSE "") \o (IF key # t.o.k THEN "C04 " ELSE "")
              \o (IF FB(ps.footer) # FB(t.o.f) THEN "C05 " ELSE "")
              \o (IF HasAssertion(ps.pr[1]) /\ AB(ps.assertion) # AB(t.o.a) THEN "C06 " ELSE "")
  IN
  IF core.res # "ok" THEN
     (IF obs.res = "ok" THEN mism \o "C16 a token that does not authenticate under the parser's key / footer / assertion was accepted"
      ELSE IF obs.calls # <<>> THEN "C03 C16 a validator ran on a token that does not authenticate"
      ELSE "C03 C09 rejection is not an authentication/format error")
  ELSE IF ~t.json THEN "C14 C15 non-JSON payload"
  ELSE IF obs.res = "pre" THEN "C01 C02 C05 C06 C15 an authentic token was rejected by the core layer (key, footer and assertion set last on the parser match)"
  ELSE IF obs.res = "ok" /\ ~should THEN tag(failing) \o "accepted although an expectation / validator fails"
  ELSE IF obs.res # "ok" /\ should THEN
     tag(IF obs.errkey \in PKeys THEN {obs.errkey} ELSE {k \in PKeys : HasV(ps, k)}) \o "rejected although every expectation holds"
  ELSE IF obs.res = "ok" THEN "C16 validators did not run exactly once each"
  ELSE IF obs.res = "claim" /\ obs.errkey \in PKeys /\ obs.errkey \notin failing
       THEN tag({obs.errkey}) \o "the error names a claim whose expectation / validator holds"
  ELSE IF obs.res = "claim" THEN tag(failing) \o "C15 C16 error kind / named claim / validator calls not explainable by any processing order"
  ELSE "C15 C16 unexpected outcome class"

RECURSIVE Walk(_, _, _, _)
Walk(ps, toks, ops, i) ==
  IF i > Len(ops) THEN [step |-> 0, why |-> ""]
  ELSE LET o == ops[i] IN
       IF o.op = "parse"
       \* "late": the harness could not complete this parse within its time margin; it is not judged
       THEN IF o.obs.res = "late" \/ ParseAllowed(ps, toks[o.t], o.k, o.obs) THEN Walk(ps, toks, ops, i + 1)
            ELSE [step |-> i, why |-> Why(ps, toks[o.t], o.k, o.obs)]
       ELSE Walk(PApply(ps, POp(o.op, o.k, o.v)), toks, ops, i + 1)

Check(r) ==
  LET pr == ProtoOf(r.pr) IN
  Walk(PInit(r.layer, pr), [i \in 1..Len(r.toks) |-> TokOf(pr, r.toks[i])], r.ops, 1)

Init == l = 1 /\ bad = <<>>
MinOf(a, c) == IF a < c THEN a ELSE c

Next ==
  /\ l <= Len(Rec)
  /\ LET hi == MinOf(l + Chunk - 1, Len(Rec))
         R  == {[id |-> Rec[i].id, line |-> i, res |-> Check(Rec[i])] : i \in l..hi}
         B  == {x \in R : x.res.step # 0}
     IN /\ bad' = bad \o SetToSeq({[id |-> x.id, line |-> x.line, step |-> x.res.step, why |-> x.res.why] : x \in B})
        /\ l' = hi + 1

Spec == Init /\ [][Next]_vars
Done == l > Len(Rec)
Inv_Report == Done => PrintT(<<"RESULT", ToJson([n |-> Len(Rec), bad |-> bad])>>)
=============================================================================
